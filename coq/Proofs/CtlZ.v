(* C08 with permessage-deflate: the control-frame theorems of CtlP.v generalised to streams that
   may carry compressed (RSV1) messages, for a reader that negotiated compression
   ([conformant_framesZ], see ReaderFlateP.v).  Control frames themselves may carry RSV1 when
   compression was negotiated (conn.go's advanceFrame tolerates it, as does
   Spec.Conformance.violates_hdr); this includes the final close frame ([valid_closeZ]).

   Contents
   1  advanceFrame on ANY acceptable control frame, RSV1 tolerated (advance_ctl_genZ), and its
      consequences: ping / pong with recording handlers, the close frame in both handler modes
   2  the generic read driver again (rg_genZ), both handler modes, frame lists that need not end
      at a message boundary; next_loop_genZ; read_message_genZ
   3  recording handlers: handler_log_in_wire_orderZ, handler_sees_frame_during_its_messageZ,
      handler_log_with_closeZ
   4  default handlers: read_messages_with_closeZ (pings answered: ReaderFlateP.read_messages_conformantZ)
   The RSV = 0 theorems of CtlP.v are instances (last section).                                *)
Require Import WS.Base.Bytes WS.gen.Consts WS.Spec.Utf8 WS.Spec.Frame WS.Spec.Conformance WS.Model.Bufio
  WS.Model.Reader WS.Proofs.BufioP WS.Proofs.FrameP WS.Proofs.SweepP WS.Proofs.ReaderBasicP.
From RecordUpdate Require Import RecordSet.
Import RecordSetNotations.
Require Import WS.Proofs.ReaderP1 WS.Proofs.ReaderP2 WS.Proofs.ReaderP3 WS.Proofs.ReaderP WS.Proofs.CtlP.
Require Import WS.Proofs.ReaderZ1 WS.Proofs.ReaderZ2 WS.Proofs.ReaderZ3 WS.Proofs.ReaderFlateP.
Ltac Zify.zify_post_hook ::= Z.div_mod_to_equations.

(* ------------------------------------------------------------------------------------------ *)
(* 1. advanceFrame on any acceptable control frame, RSV1 tolerated when negotiated            *)
(* ------------------------------------------------------------------------------------------ *)
Definition ctl_okZ (ng srv:bool) (f:frame) : Prop :=
  (rsv f = 0 \/ (ng = true /\ rsv f = 4)) /\ is_some (mkey f) = srv /\
  (opcode f = 8 \/ opcode f = 9 \/ opcode f = 10) /\ fin f = true /\ plen f <= 125.

Lemma ctl_ok_okZ ng srv f : ctl_ok srv f -> ctl_okZ ng srv f.
Proof. intros (H1 & H2). split; [left; exact H1|exact H2]. Qed.

Lemma ctl_okZ_false srv f : ctl_okZ false srv f <-> ctl_ok srv f.
Proof.
  unfold ctl_okZ, ctl_ok. split.
  - intros ([H|[H _]] & H2); [split; assumption|discriminate H].
  - intros (H1 & H2). split; [left; exact H1|exact H2].
Qed.

(* ... which is exactly: a control frame without a header-level violation in the Spec *)
Lemma ctl_okZ_spec ng srv open f : opcode f < 16 ->
  (is_control (opcode f) = true /\ violates_hdr srv ng open f (plen f) = false) <-> ctl_okZ ng srv f.
Proof.
  intros Ho. unfold ctl_okZ, violates_hdr, is_control, is_data_op, is_some. split.
  - intros (Hc & Hv).
    destruct (mkey f), srv, open, (fin f), ng; cbn [xorb negb andb orb] in Hv;
      repeat split; try reflexivity; try lia.
  - intros (Hr & Hm & Hop & Hf & Hl).
    assert (Hr' : ((rsv f =? 0) || ng && (rsv f =? 4)) = true).
    { destruct Hr as [Hr|[Hn Hr]]; rewrite Hr; [reflexivity|]. rewrite Hn. reflexivity. }
    rewrite Hr', Hf.
    destruct (mkey f), srv, open; try discriminate Hm; cbn [xorb negb andb orb]; split; lia.
Qed.

Lemma frame_accZ_ctl_okZ srv ng open f :
  frame_accZ srv ng open f = true -> is_control (opcode f) = true -> ctl_okZ ng srv f.
Proof.
  intros Hacc Hctl. destruct (frame_accZ_facts _ _ _ _ Hacc) as (Hr & Hm & Hcases).
  unfold is_control in Hctl. unfold ctl_okZ.
  destruct Hcases as [(Ho & Hf & Hl)|[(Ho & _)|(Ho & _)]]; [|lia|lia].
  repeat split; try assumption. lia.
Qed.

Lemma ctl_okZ_rsv ng srv f : ctl_okZ ng srv f -> rsv f = 0 \/ rsv f = 4.
Proof. intros ([H|[_ H]] & _); auto. Qed.

Transparent aas2.
Lemma hdr_reject_ctlZ c fs f : wf_frame f -> ctl_okZ (negotiated c) (server c) f ->
  hdr_reject c fs (hdr_b0 f) (hdr_b1 f) = false.
Proof.
  intros Hwf Hok. pose proof Hok as (Hr & Hm & Ho & Hf & Hl).
  destruct (bit_rsvZ f Hwf (ctl_okZ_rsv _ _ _ Hok)) as (R1 & R2 & R3).
  unfold hdr_reject. cbv zeta.
  rewrite R1, R2, R3, (bit_fin f Hwf), bit_mask, (hdr_b0_opcode f Hwf), hdr_b1_len7, Hm.
  assert (Hn : ((rsv f =? 4) && negb (negotiated c)) = false).
  { destruct Hr as [Hr|[Hn Hr]]; rewrite Hr; [reflexivity|]. rewrite Hn. reflexivity. }
  rewrite Hn.
  rewrite eqb_reflx. cbn [andb orb negb].
  unfold c_CloseMessage, c_PingMessage, c_PongMessage, c_TextMessage, c_BinaryMessage,
    c_continuationFrame, c_maxControlFramePayloadSize.
  replace ((opcode f =? 8) || (opcode f =? 9) || (opcode f =? 10)) with true by lia.
  destruct (len7_small f) as [Hl7 _]; [lia|]. rewrite Hl7, Hf.
  replace (125 <? plen f) with false by lia. reflexivity.
Qed.

Lemma aas2_ctlZ c f s : wf_frame f -> ctl_okZ (negotiated c) (server c) f ->
  aas2 c (hdr_b0 f) (hdr_b1 f) s = aas3 c (opcode f) (is_some (mkey f)) (len7 f) (hdr_stateZ f s).
Proof.
  intros Hwf Hok. pose proof Hok as (Hr & _).
  destruct (bit_rsvZ f Hwf (ctl_okZ_rsv _ _ _ Hok)) as (R1 & _ & _).
  unfold aas2. cbv zeta.
  rewrite R1, (bit_fin f Hwf), bit_mask, (hdr_b0_opcode f Hwf), hdr_b1_len7.
  assert (Hn : ((rsv f =? 4) && negotiated c) = (rsv f =? 4)).
  { destruct Hr as [Hr|[Hn Hr]]; rewrite Hr; [reflexivity|]. rewrite Hn. reflexivity. }
  rewrite Hn.
  replace (rfin (s <| rem := len7 f |> <| rdecomp := (rsv f =? 4) |>)) with (rfin s) by reflexivity.
  rewrite (hdr_reject_ctlZ c (rfin s) f Hwf Hok).
  reflexivity.
Qed.
Opaque aas2.

(* advanceFrame on any acceptable control frame: header, length, key and payload are consumed
   and step 7 runs on the unmasked payload; nothing else changes *)
Lemma advance_ctl_genZ c s f rest :
  binv (br s) -> (125 <= bsize (br s))%nat -> wf_frame f -> ctl_okZ (negotiated c) (server c) f ->
  pending (br s) = encode_frame f ++ rest ->
  exists s1, advance_after_skip c s = ctl_finish c (opcode f) (payload f) s1 /\
    binv (br s1) /\ bsize (br s1) = bsize (br s) /\ fault (src (br s1)) = fault (src (br s)) /\
    rem s1 = 0 /\ pending (br s1) = rest /\ same_app s s1.
Proof.
  intros Hinv Hbs Hwf Hok Hp.
  pose proof Hok as (Hr & Hm & Hop & Hfin & Hl125).
  pose proof Hwf as (_ & _ & Hpl & Hkey).
  rewrite encode_frame_split in Hp.
  rewrite aas_unfold.
  destruct (rd_app 2 s _ _ Hinv ltac:(lia) Hp eq_refl) as (b1 & Hrd & Hp1 & Hinv1 & Hbs1 & Hfl1).
  rewrite Hrd. cbv iota. cbn [nth].
  rewrite aas2_ctlZ; [|exact Hwf|exact Hok].
  set (s1 := hdr_stateZ f (s <| br := b1 |>)).
  assert (Es1 : br s1 = b1 /\ same_app s s1).
  { subst s1. unfold hdr_stateZ, same_app. cbv zeta.
    destruct Hop as [Ho|[Ho|Ho]]; rewrite Ho;
      [change ((8 =? 1) || (8 =? 2)) with false; change (8 =? 0) with false
      |change ((9 =? 1) || (9 =? 2)) with false; change (9 =? 0) with false
      |change ((10 =? 1) || (10 =? 2)) with false; change (10 =? 0) with false];
      cbv iota; rsimpl; auto 20. }
  destruct Es1 as (E1 & Esame).
  destruct (aas3_ok c (opcode f) (is_some (mkey f)) f s1 (key_bytes f ++ (wire_payload f ++ rest)))
    as (b2 & H3 & Hp2 & Hinv2 & Hbs2 & Hfl2);
    [rewrite E1; exact Hinv1|rewrite E1; lia|exact Hpl|rewrite E1; exact Hp1|].
  rewrite H3. rewrite E1 in Hbs2, Hfl2.
  assert (Hwl : blen (wire_payload f) = plen f) by apply wire_payload_blen.
  assert (Hop' : opcode f = 8 \/ opcode f = 9 \/ opcode f = 10) by exact Hop.
  destruct (mkey f) as [key|] eqn:Ek.
  - (* masked: the reader is a server *)
    cbn [is_some] in *. unfold key_bytes in Hp2. rewrite Ek in Hp2.
    destruct (aas4_masked c (opcode f) (plen f) (s1 <| br := b2 |>) key (wire_payload f ++ rest))
      as (b3 & H4 & Hp3 & Hinv3 & Hbs3 & Hfl3);
      [exact Hinv2|change (125 <= bsize b2)%nat; lia|exact Hkey|exact Hp2|].
    rewrite H4. change (bsize (br (s1 <| br := b2 |>))) with (bsize b2) in Hbs3.
    change (fault (src (br (s1 <| br := b2 |>)))) with (fault (src b2)) in Hfl3.
    set (s3 := s1 <| br := b2 |> <| rem := plen f |> <| mpos := 0 |> <| br := b3 |> <| rkey := key |>).
    destruct (aas5_ctl_gen c (opcode f) (plen f) s3 (wire_payload f) rest Hop')
      as (b4 & Hp4 & Hinv4 & Hbs4 & Hfl4 & H5);
      [subst s3; rsimpl; exact Hinv3|subst s3; rsimpl; lia
      |exact Hl125|exact Hwl|subst s3; rsimpl; exact Hp3|].
    rewrite H5.
    replace (bsize (br s3)) with (bsize b3) in Hbs4 by reflexivity.
    replace (fault (src (br s3))) with (fault (src b3)) in Hfl4 by reflexivity.
    replace (rkey s3) with key by reflexivity.
    rewrite <- Hm. rewrite (unmask_wire f key Ek).
    eexists. split; [reflexivity|]. rsimpl.
    split; [exact Hinv4|]. split; [congruence|]. split; [congruence|].
    split; [reflexivity|]. split; [exact Hp4|].
    destruct Esame as (A1 & A2 & A3 & A4 & A5 & A6 & A7 & A8 & A9 & A10 & A11 & A12 & A13).
    unfold same_app. subst s3. rsimpl. auto 20.
  - (* unmasked: the reader is a client *)
    cbn [is_some] in *. unfold key_bytes in Hp2. rewrite Ek in Hp2. cbn [app] in Hp2.
    rewrite aas4_unmasked.
    set (s3 := s1 <| br := b2 |> <| rem := plen f |>).
    destruct (aas5_ctl_gen c (opcode f) (plen f) s3 (wire_payload f) rest Hop')
      as (b4 & Hp4 & Hinv4 & Hbs4 & Hfl4 & H5);
      [subst s3; rsimpl; exact Hinv2|subst s3; rsimpl; lia
      |exact Hl125|exact Hwl|subst s3; rsimpl; exact Hp2|].
    rewrite H5.
    replace (bsize (br s3)) with (bsize b2) in Hbs4 by reflexivity.
    replace (fault (src (br s3))) with (fault (src b2)) in Hfl4 by reflexivity.
    rewrite <- Hm. rewrite (wire_payload_unmasked f Ek).
    eexists. split; [reflexivity|]. rsimpl.
    split; [exact Hinv4|]. split; [congruence|]. split; [congruence|].
    split; [reflexivity|]. split; [exact Hp4|].
    destruct Esame as (A1 & A2 & A3 & A4 & A5 & A6 & A7 & A8 & A9 & A10 & A11 & A12 & A13).
    unfold same_app. subst s3. rsimpl. auto 20.
Qed.

(* ---------- ping / pong with recording handlers ---------- *)
Theorem advance_ctl_customZ k c s f rest :
  rinv k s -> custom_handlers c = true -> wf_frame f -> ctl_okZ (negotiated c) (server c) f ->
  opcode f = 9 \/ opcode f = 10 ->
  pending (br s) = encode_frame f ++ rest ->
  exists s', advance_after_skip c s =
      ((if hfails c (hcount s) then AErr (RHandler (N.of_nat (hcount s))) else AFrame (opcode f)), s') /\
    rinv k s' /\ rem s' = 0 /\ rfin s' = rfin s /\ rlen s' = rlen s /\ pending (br s') = rest /\
    hlog s' = hlog s ++ [hev_of (opidx s) f] /\ hcount s' = S (hcount s) /\
    wlog s' = wlog s /\ opidx s' = opidx s.
Proof.
  intros Hrinv Hc Hwf Hok Hop Hp.
  pose proof Hrinv as (Hinv & Hbs & _).
  destruct (advance_ctl_genZ c s f rest Hinv Hbs Hwf Hok Hp)
    as (s1 & Hadv & Hinv1 & Hbs1 & Hfl1 & Hrem1 & Hp1 & Hsame).
  pose proof (rinv_of_same k s s1 Hrinv Hinv1 Hbs1 Hfl1 Hsame) as Hrinv1.
  destruct Hsame as (A1 & A2 & A3 & A4 & A5 & A6 & A7 & A8 & A9 & A10 & A11 & A12 & A13).
  rewrite Hadv, (ctl_finish_pingpong_custom c (opcode f) (payload f) s1 Hc Hop).
  rewrite A9. eexists. split; [reflexivity|]. rsimpl.
  split; [apply (rinv_same k s1); [exact Hrinv1|reflexivity ..]|].
  rewrite ?A8, ?A10, ?A9, ?A11, ?A1, ?A2.
  assert (Hev : (if opcode f =? 9 then HPing (opidx s) (payload f) else HPong (opidx s) (payload f))
                = hev_of (opidx s) f).
  { unfold hev_of. destruct Hop as [-> | ->]; reflexivity. }
  rewrite Hev. auto 12.
Qed.

Corollary advance_ctl_custom_accZ k c s f rest :
  rinv k s -> custom_handlers c = true -> wf_frame f ->
  frame_accZ (server c) (negotiated c) (negb (rfin s)) f = true -> is_control (opcode f) = true ->
  pending (br s) = encode_frame f ++ rest ->
  exists s', advance_after_skip c s =
      ((if hfails c (hcount s) then AErr (RHandler (N.of_nat (hcount s))) else AFrame (opcode f)), s') /\
    rinv k s' /\ rem s' = 0 /\ rfin s' = rfin s /\ rlen s' = rlen s /\ pending (br s') = rest /\
    hlog s' = hlog s ++ [hev_of (opidx s) f] /\ hcount s' = S (hcount s) /\
    wlog s' = wlog s /\ opidx s' = opidx s.
Proof.
  intros Hrinv Hc Hwf Hacc Hctl Hp.
  apply advance_ctl_customZ; try assumption.
  - exact (frame_accZ_ctl_okZ _ _ _ _ Hacc Hctl).
  - destruct (acc_casesZ _ _ _ _ Hacc) as [(_ & Hop & _)|(Hx & _)]; [exact Hop|congruence].
Qed.

(* ---------- the close frame (RSV1 tolerated when negotiated) ---------- *)
Section CloseZ.
Variables (k:errk) (c:rcfg) (s:rst) (f:frame) (rest:bytes).
Hypothesis Hrinv : rinv k s.
Hypothesis Hwf : wf_frame f.
Hypothesis Hok : ctl_okZ (negotiated c) (server c) f.
Hypothesis Hop : opcode f = 8.
Hypothesis Hrem : rem s = 0.
Hypothesis Hp : pending (br s) = encode_frame f ++ rest.

Let code := close_code (payload f).
Let text := close_text (payload f).

Theorem advance_close_defaultZ :
  custom_handlers c = false -> close_body_bad (payload f) = false ->
  exists s', advance_frame c s = (AErr (RClose code text), s') /\
    wlog s' = wlog s ++ [WCloseEcho (format_close code)] /\ closesent s' = true /\
    hlog s' = hlog s /\ hcount s' = hcount s /\ pending (br s') = rest /\
    binv (br s') /\ rerror s' = None /\ errcount s' = 0%nat /\ outoffuel s' = false /\
    opidx s' = opidx s.
Proof.
  intros Hc Hgood. pose proof Hrinv as (Hinv & Hbs & Hfl & Herr & Hoof & Hcs & Hrl & Hec).
  destruct (advance_ctl_genZ c s f rest Hinv Hbs Hwf Hok Hp)
    as (s1 & Hadv & Hinv1 & Hbs1 & Hfl1 & Hrem1 & Hp1 & Hsame).
  destruct Hsame as (A1 & A2 & A3 & A4 & A5 & A6 & A7 & A8 & A9 & A10 & A11 & A12 & A13).
  rewrite advance_frame_rem0 by exact Hrem.
  rewrite Hadv, Hop, ctl_finish_close, Hgood, Hc. fold code text.
  unfold send. rewrite A12, Hcs.
  eexists. split; [reflexivity|]. rsimpl.
  rewrite A11, A10, A9, A4, A5, A13, A8. auto 12.
Qed.

Theorem advance_close_customZ :
  custom_handlers c = true -> close_body_bad (payload f) = false ->
  exists s', advance_frame c s =
      (AErr (if hfails c (hcount s) then RHandler (N.of_nat (hcount s)) else RClose code text), s') /\
    hlog s' = hlog s ++ [HClose (opidx s) code text] /\ hcount s' = S (hcount s) /\
    wlog s' = wlog s /\ closesent s' = false /\ pending (br s') = rest /\
    binv (br s') /\ rerror s' = None /\ errcount s' = 0%nat /\ outoffuel s' = false /\
    opidx s' = opidx s.
Proof.
  intros Hc Hgood. pose proof Hrinv as (Hinv & Hbs & Hfl & Herr & Hoof & Hcs & Hrl & Hec).
  destruct (advance_ctl_genZ c s f rest Hinv Hbs Hwf Hok Hp)
    as (s1 & Hadv & Hinv1 & Hbs1 & Hfl1 & Hrem1 & Hp1 & Hsame).
  destruct Hsame as (A1 & A2 & A3 & A4 & A5 & A6 & A7 & A8 & A9 & A10 & A11 & A12 & A13).
  rewrite advance_frame_rem0 by exact Hrem.
  rewrite Hadv, Hop, ctl_finish_close, Hgood, Hc. fold code text. rewrite A9.
  eexists. split; [reflexivity|]. rsimpl.
  rewrite A11, A10, A4, A5, A13, A8, A12. auto 12.
Qed.
End CloseZ.

Definition valid_closeZ (c:rcfg) (f:frame) : Prop :=
  wf_frame f /\ ctl_okZ (negotiated c) (server c) f /\ opcode f = 8 /\ close_body_bad (payload f) = false.

Lemma valid_close_Z c f : valid_close c f -> valid_closeZ c f.
Proof. intros (H1 & H2 & H3). split; [exact H1|]. split; [apply ctl_ok_okZ; exact H2|exact H3]. Qed.

(* [valid_closeZ] is the Spec's notion: a close frame that does not violate framing *)
Lemma valid_closeZ_spec c open f : wf_frame f -> opcode f = 8 ->
  violates (server c) (negotiated c) open f = false -> valid_closeZ c f.
Proof.
  intros Hwf Hop Hv. unfold violates in Hv. apply orb_false_iff in Hv. destruct Hv as [Hh Hb].
  rewrite Hop in Hb. change (8 =? 8) with true in Hb. cbn [andb] in Hb.
  split; [exact Hwf|]. split; [|split; [exact Hop|exact Hb]].
  apply (ctl_okZ_spec (negotiated c) (server c) open f); [destruct Hwf as (_ & H & _); exact H|].
  split; [rewrite Hop; reflexivity|exact Hh].
Qed.

(* ------------------------------------------------------------------------------------------ *)
(* 2. The read path again, for BOTH handler modes, frame lists that need not end at a message *)
(*    boundary, RSV1 tolerated, any read policy (io.ReadAll / the flate reader's pull)         *)
(* ------------------------------------------------------------------------------------------ *)
Fixpoint acc_seqZ (srv ng open:bool) (fs:list frame) : bool :=
  match fs with
  | [] => true
  | f :: r => frame_accZ srv ng open f && acc_seqZ srv ng (next_open open f) r
  end.

Lemma seq_okZ_acc_seqZ srv ng : forall fs open, seq_okZ srv ng open fs = true -> acc_seqZ srv ng open fs = true.
Proof.
  induction fs as [|f r IH]; intros open H; [reflexivity|].
  cbn [seq_okZ acc_seqZ] in *. apply andb_true_iff in H. destruct H as [H1 H2].
  rewrite H1, (IH _ H2). reflexivity.
Qed.

Lemma acc_seqZ_false srv : forall fs open, acc_seqZ srv false open fs = acc_seq srv open fs.
Proof. induction fs as [|f r IH]; intros open; [reflexivity|]. cbn [acc_seqZ acc_seq]. rewrite IH. reflexivity. Qed.

Lemma seq_okZ_closes srv ng : forall fs, seq_okZ srv ng true fs = true -> cont_closes fs = true.
Proof.
  induction fs as [|f r IH]; intros H; [discriminate H|].
  cbn [seq_okZ] in H. apply andb_true_iff in H. destruct H as [Hacc H].
  cbn [cont_closes]. unfold next_open in H.
  destruct (is_control (opcode f)); [exact (IH H)|].
  destruct (fin f); [reflexivity|exact (IH H)].
Qed.

Lemma acc_seqZ_no_close srv ng : forall fs o, acc_seqZ srv ng o fs = true ->
  Forall (fun f => opcode f = 9 \/ opcode f = 10 \/ isctl f = false) fs.
Proof.
  induction fs as [|f r IH]; intros o H; [constructor|].
  cbn [acc_seqZ] in H. apply andb_true_iff in H. destruct H as [Hacc H].
  constructor; [|exact (IH _ H)].
  destruct (acc_casesZ _ _ _ _ Hacc) as [(_ & [Ho|Ho] & _)|(Hc & _)]; auto.
Qed.

(* ---------- advanceFrame on a ping / pong, either handler mode (no failing handler) -------- *)
Lemma advance_ppZ k c s f rest :
  rinv k s -> (custom_handlers c = true -> handler_fail c = []) -> wf_frame f ->
  frame_accZ (server c) (negotiated c) (negb (rfin s)) f = true -> is_control (opcode f) = true ->
  pending (br s) = encode_frame f ++ rest ->
  exists s', advance_after_skip c s = (AFrame (opcode f), s') /\
    rinv k s' /\ rem s' = 0 /\ rfin s' = rfin s /\ rlen s' = rlen s /\ pending (br s') = rest /\
    L s' = eff1 c (opidx s) (L s) f /\ opidx s' = opidx s.
Proof.
  intros Hrinv Hnf Hwf Hacc Hctl Hp. destruct (custom_handlers c) eqn:Hc.
  - destruct (advance_ctl_custom_accZ k c s f rest Hrinv Hc Hwf Hacc Hctl Hp)
      as (s' & Ha & A1 & A2 & A3 & A4 & A5 & A6 & A7 & A8 & A9).
    rewrite (hfails_nil c _ (Hnf eq_refl)) in Ha. exists s'. split; [exact Ha|].
    unfold L, eff1, isctl. rewrite Hctl, Hc, A6, A7, A8. auto 10.
  - destruct (advance_ctlZ k c s f rest Hrinv Hc Hwf Hacc Hctl Hp)
      as (s' & Ha & A1 & A2 & A3 & A4 & A5 & A6).
    destruct (aas_default c s _ s' Hc Ha) as (B1 & B2 & B3 & B4).
    exists s'. split; [exact Ha|].
    unfold L, eff1, isctl. rewrite Hctl, Hc, A6, B1, B2. auto 10.
Qed.

Lemma advance_data_LZ k c s f rest :
  rinv k s -> wf_frame f -> frame_accZ (server c) (negotiated c) (negb (rfin s)) f = true ->
  is_control (opcode f) = false ->
  pending (br s) = encode_frame f ++ rest ->
  (if opcode f =? 0 then rlen s else 0) + plen f < 2^63 ->
  exists s', advance_after_skip c s = (AFrame (opcode f), s') /\
    rinv k s' /\ rem s' = plen f /\ rfin s' = fin f /\
    rlen s' = (if opcode f =? 0 then rlen s else 0) + plen f /\
    pending (br s') = wire_payload f ++ rest /\
    unmask c s' (wire_payload f) = payload f /\
    rdecomp s' = (rsv f =? 4) /\ L s' = L s /\ opidx s' = opidx s.
Proof.
  intros Hrinv Hwf Hacc Hctl Hp Hlen.
  destruct (advance_dataZ k c s f rest Hrinv Hwf Hacc Hctl Hp Hlen)
    as (s' & Ha & A1 & A2 & A3 & A4 & A5 & A6 & A7 & A8).
  unfold is_control in Hctl.
  destruct (aas_data_logs c s _ s' Ha ltac:(lia) ltac:(lia)) as (B1 & B2 & B3 & B4).
  exists s'. split; [exact Ha|]. unfold L. rewrite B1, B2, A8. auto 12.
Qed.

Lemma rg_cont_stuck {P} (psize : P -> nat) pnext fa c p acc d e s : is_io_eof e = false ->
  rg_cont psize pnext fa c p acc (d, Some e, s) = (acc ++ d, Some e, s).
Proof. intros H. cbn [rg_cont]. destruct e; try reflexivity. discriminate H. Qed.

Section GenZ.
Variables (k:errk) (c:rcfg) (tail:bytes) (e:rerr) (Post:rst -> rst -> Prop).
Hypothesis Hnf : custom_handlers c = true -> handler_fail c = [].
Hypothesis Hx : tail <> [] \/ k = EEOF.
Hypothesis Hio : is_io_eof e = false.

Section Pol.
Variable P : Type.
Variable psize : P -> nat.
Variable pnext : P -> bytes -> P.
Variable pinv : P -> Prop.
Hypothesis psize_pos : forall p, pinv p -> (0 < psize p)%nat.
Hypothesis pnext_inv : forall p d, pinv p -> d <> [] -> blen d <= N.of_nat (psize p) -> pinv (pnext p d).

(* the driver from the middle of a frame to the end of the message -- or to the failing frame *)
Lemma rg_genZ : forall fs n wp, length wp = n -> forall s fa fl p acc,
  rinv k s -> rem s = blen wp -> pending (br s) = wp ++ encode_frames fs ++ tail ->
  Forall wf_frame fs -> acc_seqZ (server c) (negotiated c) (negb (rfin s)) fs = true ->
  rlen s + blen (encode_frames fs) < 2^63 ->
  pinv p -> (length (pending (br s)) < fl)%nat -> (length (pending (br s)) <= fa)%nat ->
  (closes (rfin s) fs = false -> open_fail k c tail e Post) ->
  exists r s', rg_cont psize pnext fa c p acc (read_loop fl c (psize p) s)
             = (acc ++ unmask c s wp ++ tail_data (rfin s) fs, r, s') /\
    ra_post k c tail e Post (rfin s) (opidx s) (L s) fs r s'.
Proof.
  induction fs as [|f fs IHfs].
  - (* no further frame *)
    induction n as [n IHn] using lt_wf_ind.
    intros wp Hn s fa fl p acc Hrinv Hrem Hp Hwf Hseq Hrl Hpi Hfl Hfa Hopen.
    pose proof Hrinv as (Hinv & Hbs & Hflt & Herr & Hoof & Hcs & Hrlim & Hecnt).
    destruct fl as [|fl]; [lia|].
    destruct wp as [|x wp'] eqn:Ewp.
    + destruct (rfin s) eqn:Efin.
      * (* the message is complete *)
        rewrite (read_loop_eof fl c _ s Herr Hrem Efin). cbn [rg_cont].
        eexists. eexists. split; [rewrite unmask_nil; reflexivity|].
        unfold ra_post, closes. split; [reflexivity|]. unfold closed_post, consumed, rest_after. rsimpl.
        split; [apply rinv_rinv_end; apply (rinv_upd k s); auto|].
        cbn [encode_frames flat_map app] in *. auto 10.
      * (* still open: the failing frame is next *)
        destruct (Hopen eq_refl) as (Htl & Hfail).
        cbn [app encode_frames flat_map] in Hp.
        destruct (Hfail s Hrinv Hrem Efin Hp) as (s2 & Hadv & HPost).
        assert (Hrl0 : read_loop (S fl) c (psize p) s = ([], Some e, s2 <| rerror := Some e |>)).
        { cbn [read_loop]. rewrite Herr, Hrem. change (0 <? 0) with false. cbv iota.
          rewrite Efin, Hadv. apply read_loop_stuck; [reflexivity|exact Hio]. }
        rewrite Hrl0, (rg_cont_stuck _ _ _ _ _ _ _ _ _ Hio).
        eexists. eexists. split; [rewrite unmask_nil; reflexivity|].
        unfold ra_post, closes. cbn [cont_closes]. split; [reflexivity|].
        exists s, s2. unfold consumed. cbn [cont_pre effs fold_left]. auto 12.
    + rewrite <- Ewp in *.
      assert (Hwne : wp <> []) by (rewrite Ewp; discriminate).
      pose proof (psize_pos p Hpi) as Hm.
      destruct (read_loop_chunk k c _ fl s wp (encode_frames [] ++ tail) Hrinv Hm Hwne Hrem Hp)
        as (w1 & w2 & e0 & s1 & Hw & Hw1 & Hb1 & Hrl1 & Hp1 & Hrem1 & Hfin1 & Hrlen1 & Hwl1 & Hun &
            Hinv1 & Hbs1 & Hfl1 & Hoof1 & Hcs1 & Hrlim1 & Herr1 & Hec1 & He).
      assert (Hwpos : 0 < rem s) by (rewrite Hrem; destruct wp; [congruence|unfold blen; cbn [length]; lia]).
      destruct (read_loop_chunk_logs _ _ _ _ _ _ _ Herr Hwpos Hrl1) as (G1 & G2 & G3 & _).
      assert (HL1 : L s1 = L s) by (unfold L; rewrite G1, G2, Hwl1; reflexivity).
      rewrite Hrl1. cbn [rg_cont].
      assert (Hbu : blen (unmask c s w1) = blen w1) by (unfold blen; rewrite unmask_length; reflexivity).
      assert (Hlen1 : (length (pending (br s)) = length w1 + length (pending (br s1)))%nat).
      { rewrite Hp, Hp1, Hw, <- app_assoc, app_length. reflexivity. }
      assert (Hw1pos : (0 < length w1)%nat) by (destruct w1; [congruence|cbn [length]; lia]).
      assert (Hune : unmask c s w1 <> []).
      { intros Hq. apply (f_equal (@length N)) in Hq. rewrite unmask_length in Hq. cbn [length] in Hq. lia. }
      destruct He as [-> | [Hnil ->]].
      * (* more to read *)
        destruct fa as [|fa]; [lia|].
        rewrite read_gen_S. unfold reader_read.
        assert (Hrinv1 : rinv k s1) by (unfold rinv; rewrite Hbs1, Hec1; auto 12).
        destruct (IHn (length w2) ltac:(subst n; rewrite Hw, app_length; lia) w2 eq_refl s1 fa
                    (fuel_of s1) (pnext p (unmask c s w1)) (acc ++ unmask c s w1))
          as (r & s' & Hres & Hpost);
          [exact Hrinv1|exact Hrem1|exact Hp1|exact Hwf|rewrite Hfin1; exact Hseq
          |rewrite Hrlen1; exact Hrl
          |apply pnext_inv; [exact Hpi|exact Hune|rewrite Hbu; exact Hb1]
          |unfold fuel_of; lia|lia|rewrite Hfin1; exact Hopen|].
        exists r, s'. split.
        { rewrite Hres. rewrite Hun, Hfin1, <- !app_assoc. reflexivity. }
        rewrite Hfin1, G3, HL1 in Hpost. exact Hpost.
      * (* the transport fault came with the last bytes of the stream *)
        apply app_eq_nil in Hnil. destruct Hnil as [Hw2 Hnil]. cbn [encode_frames flat_map app] in Hnil.
        destruct (rfin s) eqn:Efin; [|destruct (Hopen eq_refl) as (Htl & _); contradiction].
        destruct Hx as [Hx1|Hx1]; [contradiction|].
        rewrite Hx1. cbn [negb andb errk_eqb of_errk].
        eexists. eexists. split.
        { rewrite Hw, Hw2, !app_nil_r. reflexivity. }
        unfold ra_post, closes. split; [reflexivity|].
        unfold closed_post, consumed, rest_after. cbn [effs fold_left].
        split.
        { unfold rinv_end. rewrite Hbs1.
          split; [exact Hinv1|]. split; [exact Hbs|]. split; [congruence|].
          split; [|split; [exact Hoof1|split; [exact Hcs1|split; [exact Hrlim1|rewrite Hec1; exact Hecnt]]]].
          right. rewrite Herr1, Hp1, Hw2, Hnil, ?Hx1.
          cbn [negb andb errk_eqb of_errk app encode_frames flat_map]. auto. }
        rewrite Hrem1, Hw2, Hfin1, Hp1, Hw2. cbn [app]. auto 10.
  - (* at least one more frame *)
    induction n as [n IHn] using lt_wf_ind.
    intros wp Hn s fa fl p acc Hrinv Hrem Hp Hwf Hseq Hrl Hpi Hfl Hfa Hopen.
    pose proof Hrinv as (Hinv & Hbs & Hflt & Herr & Hoof & Hcs & Hrlim & Hecnt).
    destruct fl as [|fl]; [lia|].
    inversion Hwf as [|f' fs' Hwff Hwfs]; subst f' fs'.
    cbn [acc_seqZ] in Hseq. apply andb_true_iff in Hseq. destruct Hseq as [Hacc Hseq].
    destruct wp as [|x wp'] eqn:Ewp.
    + (* frame boundary *)
      cbn [app] in Hp. rewrite encode_frames_cons, <- app_assoc in Hp.
      destruct (rfin s) eqn:Efin.
      * (* the message is complete *)
        rewrite (read_loop_eof fl c _ s Herr Hrem Efin). cbn [rg_cont].
        eexists. eexists. split; [rewrite unmask_nil; reflexivity|].
        unfold ra_post, closes. split; [reflexivity|]. unfold closed_post, consumed, rest_after. rsimpl.
        split; [apply rinv_rinv_end; apply (rinv_upd k s); auto|].
        rewrite encode_frames_cons, <- app_assoc. cbn [effs fold_left]. auto 10.
      * (* open message: the next frame is a control frame or a continuation *)
        cbn [negb] in Hacc, Hseq.
        assert (Hlenp : (length (pending (br s)) =
                         length (encode_frame f) + length (encode_frames fs ++ tail))%nat)
          by (rewrite Hp, app_length; reflexivity).
        pose proof (encode_frame_length_ge2 f) as Hge2.
        assert (Hrlf : rlen s + plen f + blen (encode_frames fs) < 2^63).
        { rewrite encode_frames_cons, blen_app in Hrl. pose proof (encode_frame_ge_plen f). lia. }
        assert (Haccs : frame_accZ (server c) (negotiated c) (negb (rfin s)) f = true)
          by (rewrite Efin; exact Hacc).
        destruct (acc_casesZ _ _ _ _ Hacc) as [(Hctl & Hop & _)|(Hctl & [(_ & Hxx)|(Hop & _)])];
          [| discriminate Hxx |].
        -- (* ping / pong *)
           unfold next_open in Hseq. rewrite Hctl in Hseq.
           destruct (advance_ppZ k c s f (encode_frames fs ++ tail) Hrinv Hnf Hwff Haccs Hctl Hp)
             as (s1 & Hadv & Hrinv1 & Hrem1 & Hfin1 & Hrlen1 & Hp1 & HL1 & Ho1).
           rewrite (read_loop_adv fl c _ s (opcode f) s1 Herr Hrem Efin Hadv) by lia.
           destruct (IHfs 0%nat [] eq_refl s1 fa fl p acc) as (r & s' & Hres & Hpost);
             [exact Hrinv1|exact Hrem1|exact Hp1|exact Hwfs|rewrite Hfin1, Efin; exact Hseq
             |rewrite Hrlen1; rewrite encode_frames_cons, blen_app in Hrl; lia
             |exact Hpi|rewrite Hp1; lia|rewrite Hp1; lia
             |rewrite Hfin1, Efin; intros Hcl; apply Hopen; unfold closes in *; cbn [cont_closes];
              rewrite Hctl; exact Hcl|].
           exists r, s'. split; [rewrite Hres, !unmask_nil, Hfin1, Efin, (tail_data_ctl f fs Hctl); reflexivity|].
           rewrite Hfin1, Efin, Ho1, HL1 in Hpost. apply ra_post_ctl; assumption.
        -- (* continuation frame *)
           unfold next_open in Hseq. rewrite Hctl in Hseq.
           destruct (advance_data_LZ k c s f (encode_frames fs ++ tail) Hrinv Hwff Haccs Hctl Hp)
             as (s1 & Hadv & Hrinv1 & Hrem1 & Hfin1 & Hrlen1 & Hp1 & Hun1 & _ & HL1 & Ho1);
             [rewrite Hop; change (0 =? 0) with true; cbv iota; lia|].
           rewrite Hop in Hrlen1. change (0 =? 0) with true in Hrlen1. cbv iota in Hrlen1.
           rewrite (read_loop_adv fl c _ s (opcode f) s1 Herr Hrem Efin Hadv) by lia.
           assert (Hwpl : (length (wire_payload f) <= length (encode_frame f) - 2)%nat).
           { rewrite encode_frame_decomp. cbn [length]. rewrite !app_length. lia. }
           destruct (IHfs (length (wire_payload f)) (wire_payload f) eq_refl s1 fa fl p acc)
             as (r & s' & Hres & Hpost);
             [exact Hrinv1|rewrite Hrem1; symmetry; apply wire_payload_blen|exact Hp1|exact Hwfs
             |rewrite Hfin1; exact Hseq|rewrite Hrlen1; exact Hrlf
             |exact Hpi|rewrite Hp1, app_length; lia|rewrite Hp1, app_length; lia
             |rewrite Hfin1; intros Hcl; apply Hopen; unfold closes in *; cbn [cont_closes];
              rewrite Hctl; destruct (fin f); [discriminate Hcl|exact Hcl]|].
           exists r, s'. split.
           { rewrite Hres, Hun1, unmask_nil, Hfin1, (tail_data_data f fs Hctl). reflexivity. }
           rewrite Hfin1, Ho1, HL1 in Hpost.
           destruct (fin f) eqn:Ef; [apply ra_post_fin; assumption|apply ra_post_more; assumption].
    + (* inside a frame *)
      rewrite <- Ewp in *.
      assert (Hwne : wp <> []) by (rewrite Ewp; discriminate).
      pose proof (psize_pos p Hpi) as Hm.
      destruct (read_loop_chunk k c _ fl s wp (encode_frames (f :: fs) ++ tail) Hrinv Hm Hwne Hrem Hp)
        as (w1 & w2 & e0 & s1 & Hw & Hw1 & Hb1 & Hrl1 & Hp1 & Hrem1 & Hfin1 & Hrlen1 & Hwl1 & Hun &
            Hinv1 & Hbs1 & Hfl1 & Hoof1 & Hcs1 & Hrlim1 & Herr1 & Hec1 & He).
      assert (Hwpos : 0 < rem s) by (rewrite Hrem; destruct wp; [congruence|unfold blen; cbn [length]; lia]).
      destruct (read_loop_chunk_logs _ _ _ _ _ _ _ Herr Hwpos Hrl1) as (G1 & G2 & G3 & _).
      assert (HL1 : L s1 = L s) by (unfold L; rewrite G1, G2, Hwl1; reflexivity).
      rewrite Hrl1. cbn [rg_cont].
      assert (Hbu : blen (unmask c s w1) = blen w1) by (unfold blen; rewrite unmask_length; reflexivity).
      assert (Hlen1 : (length (pending (br s)) = length w1 + length (pending (br s1)))%nat).
      { rewrite Hp, Hp1, Hw, <- app_assoc, app_length. reflexivity. }
      assert (Hw1pos : (0 < length w1)%nat) by (destruct w1; [congruence|cbn [length]; lia]).
      assert (Hune : unmask c s w1 <> []).
      { intros Hq. apply (f_equal (@length N)) in Hq. rewrite unmask_length in Hq. cbn [length] in Hq. lia. }
      destruct He as [-> | [Hnil _]].
      * destruct fa as [|fa]; [lia|].
        rewrite read_gen_S. unfold reader_read.
        assert (Hrinv1 : rinv k s1) by (unfold rinv; rewrite Hbs1, Hec1; auto 12).
        destruct (IHn (length w2) ltac:(subst n; rewrite Hw, app_length; lia) w2 eq_refl s1 fa
                    (fuel_of s1) (pnext p (unmask c s w1)) (acc ++ unmask c s w1))
          as (r & s' & Hres & Hpost);
          [exact Hrinv1|exact Hrem1|exact Hp1|exact Hwf
          |rewrite Hfin1; cbn [acc_seqZ]; rewrite Hacc, Hseq; reflexivity
          |rewrite Hrlen1; exact Hrl
          |apply pnext_inv; [exact Hpi|exact Hune|rewrite Hbu; exact Hb1]
          |unfold fuel_of; lia|lia|rewrite Hfin1; exact Hopen|].
        exists r, s'. split.
        { rewrite Hres. rewrite Hun, Hfin1, <- !app_assoc. reflexivity. }
        rewrite Hfin1, G3, HL1 in Hpost. exact Hpost.
      * (* impossible: a whole frame is still pending *)
        exfalso. apply app_eq_nil in Hnil. destruct Hnil as [_ Hnil].
        apply app_eq_nil in Hnil. destruct Hnil as [Hnil _].
        apply encode_frames_nil_inv in Hnil. discriminate Hnil.
Qed.
End Pol.
End GenZ.

(* what ReadMessage returns for a message with wire payload [d], given the driver's verdict *)
Definition msg_outZ (inflate : bytes -> option bytes) (ty:N) (cz:bool) (d:bytes) (res:option rerr) : rout :=
  match res with
  | None => out_ofZ inflate (ty, cz, d)
  | Some e => RMsg ty (if cz then [] else d) (Some e)
  end.

Section Gen2Z.
Variables (k:errk) (c:rcfg) (tail:bytes) (e:rerr) (Post:rst -> rst -> Prop).
Hypothesis Hnf : custom_handlers c = true -> handler_fail c = [].
Hypothesis Hx : tail <> [] \/ k = EEOF.
Hypothesis Hio : is_io_eof e = false.

(* NextReader's loop: leading pings/pongs (either handler mode), then the first data frame *)
Lemma next_loop_genZ : forall fs p f r, find_data fs = Some (p, f, r) ->
  forall s fuel, rinv k s -> rem s = 0 -> rfin s = true ->
  pending (br s) = encode_frames fs ++ tail ->
  Forall wf_frame fs -> acc_seqZ (server c) (negotiated c) false fs = true ->
  blen (encode_frames fs) < 2^63 -> (length (pending (br s)) < fuel)%nat ->
  exists s', next_loop fuel c s = (Some (opcode f), s') /\
    rinv k s' /\ rem s' = plen f /\ rfin s' = fin f /\ rlen s' = plen f /\
    pending (br s') = wire_payload f ++ encode_frames r ++ tail /\
    unmask c s' (wire_payload f) = payload f /\ rdecomp s' = (rsv f =? 4) /\
    L s' = effs c (opidx s) (L s) (lead fs) /\ opidx s' = opidx s /\
    Forall wf_frame r /\ acc_seqZ (server c) (negotiated c) (negb (fin f)) r = true /\
    plen f + blen (encode_frames r) < 2^63 /\ (opcode f = 1 \/ opcode f = 2).
Proof.
  induction fs as [|g fs IH]; intros p f r Hfd s fuel Hrinv Hrem Hfin Hp Hwf Hseq Hlen Hfuel;
    [discriminate Hfd|].
  pose proof Hrinv as (Hinv & Hbs & Hflt & Herr & Hoof & Hcs & Hrlim & Hecnt).
  inversion Hwf as [|g' fs' Hwfg Hwfs]; subst g' fs'.
  cbn [acc_seqZ] in Hseq. apply andb_true_iff in Hseq. destruct Hseq as [Hacc Hseq].
  rewrite encode_frames_cons, <- app_assoc in Hp.
  rewrite encode_frames_cons, blen_app in Hlen.
  pose proof (encode_frame_length_ge2 g) as Hge2.
  assert (Hlenp : (length (pending (br s)) =
                   length (encode_frame g) + length (encode_frames fs ++ tail))%nat)
    by (rewrite Hp, app_length; reflexivity).
  assert (Haccs : frame_accZ (server c) (negotiated c) (negb (rfin s)) g = true)
    by (rewrite Hfin; exact Hacc).
  destruct fuel as [|fuel]; [lia|].
  cbn [next_loop]. rewrite Herr. rewrite advance_frame_rem0 by exact Hrem.
  cbn [find_data] in Hfd. unfold next_open in Hseq. cbn [lead].
  destruct (is_control (opcode g)) eqn:Hctl.
  - destruct (find_data fs) as [[[p1 d1] a1]|] eqn:Efd; [|discriminate Hfd].
    inversion Hfd; subst p d1 a1. clear Hfd.
    destruct (advance_ppZ k c s g (encode_frames fs ++ tail) Hrinv Hnf Hwfg Haccs Hctl Hp)
      as (s1 & Hadv & Hrinv1 & Hrem1 & Hfin1 & Hrlen1 & Hp1 & HL1 & Ho1).
    rewrite Hadv. cbv iota.
    destruct (acc_casesZ _ _ _ _ Hacc) as [(_ & Hop & _)|(Hc & _)]; [|congruence].
    unfold c_TextMessage, c_BinaryMessage.
    replace ((opcode g =? 1) || (opcode g =? 2)) with false by lia. cbv iota.
    destruct (IH p1 f r eq_refl s1 fuel Hrinv1 Hrem1) as (s' & Hres & Hrest);
      [rewrite Hfin1; exact Hfin|exact Hp1|exact Hwfs|exact Hseq|lia|rewrite Hp1; lia|].
    exists s'. split; [exact Hres|].
    rewrite Ho1, HL1 in Hrest. cbn [effs fold_left]. exact Hrest.
  - inversion Hfd; subst p g fs. clear Hfd.
    destruct (acc_casesZ _ _ _ _ Hacc) as [(Hc & _)|(_ & [(Hop & _)|(_ & Hxx)])];
      [congruence| |discriminate Hxx].
    assert (Hop0 : (opcode f =? 0) = false) by lia.
    destruct (advance_data_LZ k c s f (encode_frames r ++ tail) Hrinv Hwfg Haccs Hctl Hp)
      as (s1 & Hadv & Hrinv1 & Hrem1 & Hfin1 & Hrlen1 & Hp1 & Hun1 & Hdec1 & HL1 & Ho1);
      [rewrite Hop0; pose proof (encode_frame_ge_plen f); lia|].
    rewrite Hop0 in Hrlen1.
    rewrite Hadv. cbv iota.
    unfold c_TextMessage, c_BinaryMessage.
    replace ((opcode f =? 1) || (opcode f =? 2)) with true by lia. cbv iota.
    eexists. split; [reflexivity|]. unfold unmask, L in *. rsimpl.
    split; [apply (rinv_same k s1); [exact Hrinv1|reflexivity ..]|].
    cbn [effs fold_left].
    pose proof (encode_frame_ge_plen f).
    repeat split; try assumption; try lia.
Qed.

(* ReadMessage over one message, compressed or not: it either completes within [fs] ... or the
   failing frame is met while it is still open; then an uncompressed message's data read so far
   comes back WITH the error, a compressed message's raw bytes are dropped *)
Theorem read_message_genZ inflate fs s p f r :
  rinv k s -> rem s = 0 -> rfin s = true ->
  pending (br s) = encode_frames fs ++ tail ->
  Forall wf_frame fs -> acc_seqZ (server c) (negotiated c) false fs = true ->
  blen (encode_frames fs) < 2^63 ->
  find_data fs = Some (p, f, r) ->
  (closes (fin f) r = false -> open_fail k c tail e Post) ->
  exists res s',
    read_message inflate c s =
      (msg_outZ inflate (opcode f) (rsv f =? 4) (payload f ++ tail_data (fin f) r) res, s') /\
    ra_post k c tail e Post (fin f) (opidx s) (effs c (opidx s) (L s) (lead fs)) r res s'.
Proof.
  intros Hrinv Hrem Hfin Hp Hwf Hseq Hlen Efd Hopen.
  set (s0 := s <| cur := None |> <| rlen := 0 |>).
  assert (Hrinv0 : rinv k s0) by (apply (rinv_same k s); [exact Hrinv|reflexivity ..]).
  destruct (next_loop_genZ fs p f r Efd s0 (fuel_of s0) Hrinv0) as
    (s1 & Hnl & Hrinv1 & Hrem1 & Hfin1 & Hrlen1 & Hp1 & Hun1 & Hdec1 & HL1 & Ho1 & Hwfr & Hseqr & Hlenr & Hop);
    [exact Hrem|exact Hfin|exact Hp|exact Hwf|exact Hseq|exact Hlen|unfold fuel_of; lia|].
  unfold read_message, next_reader. fold s0. rewrite Hnl. cbv iota. rewrite Hdec1.
  destruct (rsv f =? 4); cbv iota.
  - (* compressed: the flate reader's pull *)
    unfold fuel_of at 1. rewrite read_raw_gen, read_gen_S. unfold reader_read.
    change 4096%nat with (psizeR tt).
    destruct (rg_genZ k c tail e Post Hnf Hx Hio unit psizeR pnextR (fun _ => True) psizeR_pos
                (fun _ _ _ _ _ => I) r (length (wire_payload f)) (wire_payload f) eq_refl s1
                (S (length (pending (br s1)))) (fuel_of s1) tt [])
      as (res & s' & Hres & Hpost);
      [exact Hrinv1|rewrite Hrem1; symmetry; apply wire_payload_blen|exact Hp1|exact Hwfr
      |rewrite Hfin1; exact Hseqr|rewrite Hrlen1; exact Hlenr|exact I|unfold fuel_of; lia|lia
      |rewrite Hfin1; exact Hopen|].
    rewrite Hres. cbn [app]. rewrite Hun1, Hfin1.
    exists res, s'. split.
    { destruct res as [e0|]; cbn [msg_outZ out_ofZ]; [reflexivity|].
      destruct (inflate ((payload f ++ tail_data (fin f) r) ++ ws_tail)); reflexivity. }
    rewrite Hfin1, Ho1, HL1 in Hpost. exact Hpost.
  - (* uncompressed: io.ReadAll *)
    unfold fuel_of at 1. rewrite read_all_gen, read_gen_S. unfold reader_read.
    destruct (rg_genZ k c tail e Post Hnf Hx Hio (N*N) psizeA (pnextA c) pinvA psizeA_pos (pnextA_inv c)
                r (length (wire_payload f)) (wire_payload f) eq_refl s1
                (S (length (pending (br s1)))) (fuel_of s1) (0, 512) [])
      as (res & s' & Hres & Hpost);
      [exact Hrinv1|rewrite Hrem1; symmetry; apply wire_payload_blen|exact Hp1|exact Hwfr
      |rewrite Hfin1; exact Hseqr|rewrite Hrlen1; exact Hlenr|unfold pinvA; cbn [fst snd]; lia
      |unfold fuel_of; lia|lia|rewrite Hfin1; exact Hopen|].
    rewrite Hres. cbn [app]. rewrite Hun1, Hfin1.
    exists res, s'. split; [destruct res; reflexivity|].
    rewrite Hfin1, Ho1, HL1 in Hpost. exact Hpost.
Qed.
End Gen2Z.

(* ------------------------------------------------------------------------------------------ *)
(* 3. Recording handlers see every control frame once, in wire order, compressed messages or  *)
(*    not                                                                                     *)
(* ------------------------------------------------------------------------------------------ *)
Lemma out_ofZ_np inflate m (X:Type) (u v:X) :
  match out_ofZ inflate m with RPanic => u | _ => v end = v.
Proof.
  destruct m as [[ty cz] d]. unfold out_ofZ. destruct cz; [destruct (inflate (d ++ ws_tail))|]; reflexivity.
Qed.

Section RunCustomZ.
Variables (inflate : bytes -> option bytes) (k:errk) (c:rcfg) (extra:bytes).
Hypothesis Hc : custom_handlers c = true.
Hypothesis Hnf : handler_fail c = [].
Hypothesis Hx : extra <> [] \/ k = EEOF.

Lemma run_msgs_customZ : forall n fs, (length fs <= n)%nat -> forall s,
  rinv k s -> rem s = 0 -> rfin s = true ->
  pending (br s) = encode_frames fs ++ extra -> conformant_framesZ c fs ->
  exists s', run_ops inflate c s (repeat OReadMessage (length (msgs fs)))
               = (map (out_ofZ inflate) (msgs fs), s') /\
    rinv_end k s' /\ rem s' = 0 /\ rfin s' = true /\
    pending (br s') = encode_frames (trailer fs) ++ extra /\
    hlog s' ++ stamps (opidx s') (trailer fs) = hlog s ++ stamps (opidx s) fs /\
    (hcount s' + length (hlog s) = hcount s + length (hlog s'))%nat /\
    wlog s' = wlog s /\ opidx s' = (opidx s + length (msgs fs))%nat.
Proof.
  induction n as [|n IH]; intros fs Hn s Hrinv Hrem Hfin Hp Hconf.
  - destruct fs; [|cbn [length] in Hn; lia].
    exists s. cbn. rewrite !app_nil_r. split; [reflexivity|].
    split; [apply rinv_rinv_end; exact Hrinv|]. rewrite Nat.add_0_r. auto 10.
  - pose proof Hconf as (Hwf & Hseq & Hlen).
    destruct (first_msgZ fs) as [[[[[ty cz] d] p] a]|] eqn:Efm.
    + destruct (first_msg_someZ (server c) (negotiated c) fs ty cz d p a Hseq Efm)
        as (Htr & Hpg & Hms & Hseqa & (pre & Hfs & Hpre)).
      unfold first_msgZ in Efm.
      destruct (find_data fs) as [[[p1 f] r]|] eqn:Efd; [|discriminate Efm].
      rewrite msg_tail_eq in Efm. inversion Efm; subst ty cz d p a. clear Efm.
      destruct (find_data_specZ (server c) (negotiated c) fs p1 f r Hseq Efd)
        as (cs & _ & _ & _ & _ & _ & _ & Hseqr).
      assert (Hcl : closes (fin f) r = true).
      { unfold closes. destruct (fin f); [reflexivity|]. exact (seq_okZ_closes _ _ _ Hseqr). }
      destruct (read_message_genZ k c extra RProto (fun _ _ => True) (fun _ => Hnf) Hx eq_refl inflate fs s p1 f r
                  Hrinv Hrem Hfin Hp Hwf (seq_okZ_acc_seqZ _ _ _ _ Hseq) Hlen Efd)
        as (res & s1 & Hrm & Hpost); [rewrite Hcl; discriminate|].
      unfold ra_post in Hpost. rewrite Hcl in Hpost.
      destruct Hpost as (-> & Hend1 & Hrem1 & Hfin1 & Hp1 & HL1 & Ho1).
      cbn [msg_outZ] in Hrm.
      rewrite <- effs_app in HL1. unfold L in HL1. rewrite (effs_custom c _ Hc) in HL1.
      inversion HL1 as [[Hh1 Hn1 Hw1]]. clear HL1.
      pose proof (stamps_first_msg (opidx s) fs p1 f r Efd) as Hst.
      set (pre0 := lead fs ++ consumed (fin f) r) in *.
      set (a := rest_after (fin f) r) in *.
      rewrite Hms. cbn [length repeat map run_ops]. unfold rstep. rewrite Hrm. cbv beta iota.
      rewrite out_ofZ_np.
      set (s2 := s1 <| opidx := S (opidx s1) |>).
      assert (Hconfa : conformant_framesZ c a)
        by (apply (conformantZ_suffix c pre); [rewrite <- Hfs; exact Hconf|exact Hseqa]).
      assert (Hla : (length a <= n)%nat).
      { pose proof (suffix_shorter pre a Hpre). rewrite <- Hfs in H. lia. }
      assert (Hhc1 : (hcount s1 + length (hlog s) = hcount s + length (hlog s1))%nat).
      { rewrite Hh1, Hn1, app_length. unfold hevs. rewrite map_length. lia. }
      pose proof Hend1 as (E1 & E2 & E3 & [E4|(E4 & E5 & E6)] & E7 & E8 & E9 & E10).
      * assert (Hrinv2 : rinv k s2) by (unfold rinv; subst s2; rsimpl; auto 12).
        destruct (IH a Hla s2 Hrinv2 Hrem1 Hfin1 Hp1 Hconfa)
          as (s' & Hrun & Hend' & Hrem' & Hfin' & Hp' & Hh' & Hn' & Hw' & Ho').
        rewrite Hrun. exists s'. split; [reflexivity|].
        split; [exact Hend'|]. split; [exact Hrem'|]. split; [exact Hfin'|].
        split; [rewrite Htr; exact Hp'|].
        subst s2. rsimpl_in Hh'. rsimpl_in Hn'. rsimpl_in Hw'. rsimpl_in Ho'.
        split; [rewrite Htr, Hh', Hh1, Ho1, Hst, <- app_assoc; reflexivity|].
        split; [lia|]. split; [congruence|]. cbn [length]. lia.
      * rewrite Hp1 in E5. apply app_eq_nil in E5. destruct E5 as [Ea Eextra].
        apply encode_frames_nil_inv in Ea. rewrite Ea in *.
        cbn [msgs events_of events_from fst data_msgs flat_map length repeat run_ops map].
        exists s2. split; [reflexivity|]. subst s2. rsimpl.
        split; [unfold rinv_end; rsimpl; rewrite Hp1; auto 12|].
        split; [exact Hrem1|]. split; [exact Hfin1|].
        split; [rewrite Htr; exact Hp1|].
        split; [rewrite Htr, Hh1, Hst; cbn [trailer stamps]; rewrite !app_nil_r; reflexivity|].
        split; [exact Hhc1|]. split; [congruence|]. lia.
    + destruct (first_msg_noneZ (server c) (negotiated c) fs Hseq Efm) as (Hall & Hms).
      rewrite Hms. cbn [length repeat run_ops map].
      exists s. split; [reflexivity|]. split; [apply rinv_rinv_end; exact Hrinv|].
      rewrite (all_ctl_trailer fs Hall), Nat.add_0_r. auto 10.
Qed.
End RunCustomZ.

Theorem handler_log_in_wire_orderZ :
  forall inflate c b fs extra,
    custom_handlers c = true -> handler_fail c = [] -> binv b -> (125 <= bsize b)%nat ->
    conformant_framesZ c fs -> pending b = encode_frames fs ++ extra ->
    (trailer fs = [] -> extra = [] -> fault (src b) = EEOF) ->
    let ms := data_msgs (events_of fs) in
    exists s',
      run_ops inflate c (init_rst b) (repeat OReadMessage (length ms)) = (map (out_ofZ inflate) ms, s') /\
      (* the log is exactly what the stream dictates: each control frame of the consumed part
         once, in wire order, stamped with the call during which it was handled *)
      hlog s' = stamps 0 (body fs) /\
      map hev_payload (hlog s') = map ctl_payload (filter isctl (body fs)) /\
      hcount s' = length (hlog s') /\
      (* recording handlers: the reader itself writes nothing *)
      wlog s' = [] /\ closesent s' = false /\ outoffuel s' = false /\
      pending (br s') = encode_frames (trailer fs) ++ extra /\ opidx s' = length ms.
Proof.
  intros inflate c b fs extra Hc Hnf Hinv Hbs Hconf Hp Hside ms.
  set (extra' := encode_frames (trailer fs) ++ extra).
  assert (Hx : extra' <> [] \/ fault (src b) = EEOF).
  { destruct (trailer fs) as [|t tr] eqn:Et.
    - destruct extra as [|x extra0] eqn:Ee; [right; apply Hside; reflexivity|].
      left. subst extra'. cbn [encode_frames flat_map app]. discriminate.
    - left. subst extra'. rewrite encode_frames_cons, encode_frame_decomp. cbn [app]. discriminate. }
  assert (Hp' : pending (br (init_rst b)) = encode_frames (body fs) ++ extra').
  { subst extra'. rewrite app_assoc, <- encode_frames_app, body_trailer. exact Hp. }
  destruct (run_msgs_customZ inflate (fault (src b)) c extra' Hc Hnf Hx (length (body fs)) (body fs) (le_n _)
              (init_rst b) (rinv_init b Hinv Hbs) eq_refl eq_refl Hp' (conformantZ_body c fs Hconf))
    as (s' & Hrun & Hend & Hrem & Hfin & Hpend & Hh & Hn & Hw & Ho).
  rewrite msgs_body in Hrun, Ho. rewrite trailer_body in Hpend, Hh.
  cbn [encode_frames flat_map app stamps init_rst hlog hcount wlog opidx length] in *.
  rewrite app_nil_r in Hh.
  exists s'. split; [exact Hrun|]. split; [exact Hh|].
  split.
  { rewrite Hh. apply stamps_payloads.
    destruct (conformantZ_body c fs Hconf) as (_ & Hs & _).
    exact (acc_seqZ_no_close _ _ _ _ (seq_okZ_acc_seqZ _ _ _ _ Hs)). }
  destruct Hend as (E1 & E2 & E3 & E4 & E5 & E6 & E7 & E8).
  split; [lia|]. split; [exact Hw|]. split; [exact E6|]. split; [exact E5|].
  split; [exact Hpend|exact Ho].
Qed.

(* wire order relative to the data, spelled out *)
Corollary handler_sees_frame_during_its_messageZ :
  forall inflate c b fs extra l1 g l2,
    custom_handlers c = true -> handler_fail c = [] -> binv b -> (125 <= bsize b)%nat ->
    conformant_framesZ c fs -> pending b = encode_frames fs ++ extra ->
    (trailer fs = [] -> extra = [] -> fault (src b) = EEOF) ->
    body fs = l1 ++ g :: l2 -> isctl g = true ->
    exists s', run_ops inflate c (init_rst b) (repeat OReadMessage (length (data_msgs (events_of fs))))
                 = (map (out_ofZ inflate) (data_msgs (events_of fs)), s') /\
      hlog s' = stamps 0 l1 ++ hev_of (nfin l1) g :: stamps (nfin l1) l2.
Proof.
  intros inflate c b fs extra l1 g l2 Hc Hnf Hinv Hbs Hconf Hp Hside Hb Hg.
  destruct (handler_log_in_wire_orderZ inflate c b fs extra Hc Hnf Hinv Hbs Hconf Hp Hside)
    as (s' & Hrun & Hh & _).
  exists s'. split; [exact Hrun|]. rewrite Hh, Hb. exact (stamps_at l1 g l2 0 Hg).
Qed.

(* ---------- NextReader works through leading pings and pongs, either handler mode ---------- *)
Lemma next_loop_ctls_genZ k c : (custom_handlers c = true -> handler_fail c = []) ->
  forall cs s fuel rest, all_ctl cs = true ->
  rinv k s -> rem s = 0 -> rfin s = true -> pending (br s) = encode_frames cs ++ rest ->
  Forall wf_frame cs -> seq_okZ (server c) (negotiated c) false cs = true ->
  exists s1, next_loop (length cs + fuel) c s = next_loop fuel c s1 /\
    rinv k s1 /\ rem s1 = 0 /\ rfin s1 = true /\ pending (br s1) = rest /\
    L s1 = effs c (opidx s) (L s) cs /\ opidx s1 = opidx s.
Proof.
  intros Hnf. induction cs as [|g cs IH]; intros s fuel rest Hall Hrinv Hrem Hfin Hp Hwf Hseq.
  - exists s. cbn [length Nat.add effs fold_left].
    cbn [encode_frames flat_map app] in Hp. auto 10.
  - pose proof Hrinv as (Hinv & Hbs & Hflt & Herr & Hoof & Hcs & Hrlim & Hecnt).
    rewrite all_ctl_cons in Hall. apply andb_true_iff in Hall. destruct Hall as [Hctl Hall].
    inversion Hwf as [|g' cs' Hwfg Hwfs]; subst g' cs'.
    cbn [seq_okZ] in Hseq. apply andb_true_iff in Hseq. destruct Hseq as [Hacc Hseq].
    unfold next_open in Hseq. rewrite Hctl in Hseq.
    rewrite encode_frames_cons, <- app_assoc in Hp.
    assert (Haccs : frame_accZ (server c) (negotiated c) (negb (rfin s)) g = true)
      by (rewrite Hfin; exact Hacc).
    destruct (advance_ppZ k c s g (encode_frames cs ++ rest) Hrinv Hnf Hwfg Haccs Hctl Hp)
      as (s1 & Hadv & Hrinv1 & Hrem1 & Hfin1 & Hrlen1 & Hp1 & HL1 & Ho1).
    destruct (acc_casesZ _ _ _ _ Hacc) as [(_ & Hop & _)|(Hc & _)]; [|congruence].
    assert (Haf : advance_frame c s = (AFrame (opcode g), s1))
      by (rewrite advance_frame_rem0 by exact Hrem; exact Hadv).
    cbn [length Nat.add].
    rewrite (next_loop_step_ctl _ c s (opcode g) s1 Herr Haf) by lia.
    destruct (IH s1 fuel rest Hall Hrinv1 Hrem1) as (s2 & Hnl & Hrinv2 & Hrem2 & Hfin2 & Hp2 & HL2 & Ho2);
      [rewrite Hfin1; exact Hfin|exact Hp1|exact Hwfs|exact Hseq|].
    exists s2. split; [exact Hnl|]. split; [exact Hrinv2|]. split; [exact Hrem2|].
    split; [exact Hfin2|]. split; [exact Hp2|].
    rewrite Ho1, HL1 in HL2. cbn [effs fold_left]. split; [exact HL2|congruence].
Qed.

Lemma out_ofZ_not_panicZ inflate ms : ~ In RPanic (map (out_ofZ inflate) ms).
Proof.
  intros H. apply in_map_iff in H. destruct H as ([[ty cz] d] & H & _).
  unfold out_ofZ in H. destruct cz; [destruct (inflate (d ++ ws_tail))|]; discriminate H.
Qed.

(* ---------- recording handlers: messages, trailing control frames, then a close frame ------- *)
Theorem handler_log_with_closeZ :
  forall inflate c b fs cf anything,
    custom_handlers c = true -> handler_fail c = [] -> binv b -> (125 <= bsize b)%nat ->
    conformant_framesZ c fs -> valid_closeZ c cf ->
    pending b = encode_frames fs ++ encode_frame cf ++ anything ->
    let ms := data_msgs (events_of fs) in
    let code := close_code (payload cf) in
    let text := close_text (payload cf) in
    exists s',
      run_ops inflate c (init_rst b) (repeat OReadMessage (S (length ms))) =
        (map (out_ofZ inflate) ms ++ [RMsg 0 [] (Some (RClose code text))], s') /\
      rerror s' = Some (RClose code text) /\
      (* every ping and pong of the stream, then the close, each exactly once, in wire order *)
      hlog s' = stamps 0 fs ++ [HClose (length ms) code text] /\
      hcount s' = length (hlog s') /\
      (* a recording close handler replaces the echo: the reader writes nothing *)
      wlog s' = [] /\ closesent s' = false /\ outoffuel s' = false /\
      pending (br s') = anything /\
      (forall ops, exists rs s'', run_ops inflate c s' ops = (rs, s'') /\
         Forall is_failure rs /\ br s'' = br s' /\ hlog s'' = hlog s' /\ wlog s'' = wlog s' /\
         rerror s'' = Some (RClose code text)).
Proof.
  intros inflate c b fs cf anything Hc Hnf Hinv Hbs Hconf (Hwfc & Hokc & Hopc & Hgood) Hp ms code text.
  set (k := fault (src b)).
  set (tail := encode_frame cf ++ anything).
  assert (Htl : tail <> []) by (subst tail; rewrite encode_frame_decomp; cbn [app]; discriminate).
  destruct (run_msgs_customZ inflate k c tail Hc Hnf (or_introl Htl) (length fs) fs (le_n _)
              (init_rst b) (rinv_init b Hinv Hbs) eq_refl eq_refl Hp Hconf)
    as (sA & Hrun & Hend & Hrem & Hfin & Hpend & Hh & Hn & Hw & Ho).
  cbn [init_rst hlog hcount wlog opidx length app Nat.add] in Hh, Hn, Hw, Ho.
  change (msgs fs) with ms in Hrun, Ho.
  assert (HrinvA : rinv k sA).
  { apply rinv_end_rinv; [exact Hend|]. rewrite Hpend. intros H. apply app_eq_nil in H.
    destruct H as [_ H]. contradiction. }
  cbn [repeat]. rewrite repeat_cons.
  rewrite (run_ops_app inflate c _ _ _ _ [OReadMessage] Hrun (out_ofZ_not_panicZ _ _)).
  cbn [run_ops]. unfold rstep.
  destruct Hconf as (Hwf & Hseq & Hlen).
  assert (Hwft : Forall wf_frame (trailer fs)).
  { rewrite <- (body_trailer fs) in Hwf. apply Forall_app in Hwf. apply Hwf. }
  pose proof (seq_okZ_trailer (server c) (negotiated c) fs Hseq) as Hseqt.
  set (s0 := sA <| cur := None |> <| rlen := 0 |>).
  assert (Hrinv0 : rinv k s0) by (apply (rinv_same k sA); [exact HrinvA|reflexivity ..]).
  pose proof (encode_frames_length_ge (trailer fs)) as Hge.
  assert (Hfuel : exists f', fuel_of s0 = (length (trailer fs) + S f')%nat).
  { unfold fuel_of. change (br s0) with (br sA). rewrite Hpend, app_length.
    exists (S (length (encode_frames (trailer fs)) - length (trailer fs) + length tail))%nat. lia. }
  destruct Hfuel as (f' & Hfuel).
  destruct (next_loop_ctls_genZ k c (fun _ => Hnf) (trailer fs) s0 (S f') tail (trailer_all_ctl fs)
              Hrinv0 Hrem Hfin Hpend Hwft Hseqt)
    as (s1 & Hnl & Hrinv1 & Hrem1 & Hfin1 & Hp1 & HL1 & Ho1).
  change (opidx s0) with (opidx sA) in HL1, Ho1. change (L s0) with (L sA) in HL1.
  unfold L in HL1. rewrite (effs_custom c _ Hc) in HL1. inversion HL1 as [[Hh1 Hn1 Hw1]]. clear HL1.
  destruct (advance_close_customZ k c s1 cf anything Hrinv1 Hwfc Hokc Hopc Hrem1 Hp1 Hc Hgood)
    as (s2 & Hadv & A1 & A2 & A3 & A4 & A5 & A6 & A7 & A8 & A9 & A10).
  rewrite (hfails_nil c _ Hnf) in Hadv. fold code text in Hadv, A1.
  pose proof Hrinv1 as (_ & _ & _ & Herr1 & _ & _ & _ & Hec1).
  rewrite (next_loop_step_err f' c s1 _ s2 Herr1 Hadv) in Hnl. rewrite <- Hfuel in Hnl.
  rewrite (read_message_of_next_none inflate c sA _ _ Hnl eq_refl) by (rsimpl; congruence).
  cbn [fst snd].
  assert (Hst : hlog s1 = stamps 0 fs).
  { rewrite Hh1, <- (stamps_all_ctl _ _ (trailer_all_ctl fs)), Hh. reflexivity. }
  eexists. split; [reflexivity|]. rsimpl.
  assert (Hlog : hlog s2 = stamps 0 fs ++ [HClose (length ms) code text]).
  { rewrite A1, Hst, Ho1, Ho. reflexivity. }
  split; [reflexivity|]. split; [exact Hlog|].
  split.
  { rewrite A2, Hn1, Hlog, app_length, <- Hst, Hh1, app_length. unfold hevs. rewrite map_length.
    cbn [length]. lia. }
  split; [rewrite A3, Hw1; exact Hw|]. split; [exact A4|]. split; [exact A9|]. split; [exact A5|].
  intros ops.
  match goal with |- context [run_ops inflate c ?x ops] => set (sF := x) end.
  assert (HeF : rerror sF = Some (RClose code text)) by reflexivity.
  destruct (errors_are_permanent inflate c ops sF _ HeF) as (rs & s'' & Hr & Hfz & Hfail).
  exists rs, s''. split; [exact Hr|]. split; [exact Hfail|].
  destruct (frozen_fields _ _ Hfz) as (F1 & F2 & F3 & F4). rewrite F4. auto.
Qed.

(* ------------------------------------------------------------------------------------------ *)
(* 4. Default handlers: a conformant prefix (compressed messages or not), then a frame at     *)
(*    which advanceFrame fails; the close frame                                               *)
(* ------------------------------------------------------------------------------------------ *)
Section PrefixThenFailZ.
Variables (inflate : bytes -> option bytes) (c:rcfg) (b:bufio) (fs:list frame) (tail:bytes) (e:rerr).
Variable Post : rst -> rst -> Prop.
Hypothesis Hch : custom_handlers c = false.
Hypothesis Hinv : binv b.
Hypothesis Hbs : (125 <= bsize b)%nat.
Hypothesis Hconf : conformant_framesZ c fs.
Hypothesis Hp : pending b = encode_frames fs ++ tail.
Hypothesis Htail : tail <> [].
(* whatever comes next makes advanceFrame fail, in any good state at a message boundary *)
Hypothesis Hfail : forall s, rinv (fault (src b)) s -> rem s = 0 -> rfin s = true ->
  pending (br s) = tail ->
  exists s2, advance_frame c s = (AErr e, s2) /\ Post s s2.

Let ms := data_msgs (events_of fs).

Lemma prefix_then_failZ :
  exists s1 s2 sF,
    run_ops inflate c (init_rst b) (repeat OReadMessage (S (length ms)))
      = (map (out_ofZ inflate) ms ++ [RMsg 0 [] (Some e)], sF) /\
    (* the state in which the failing frame is met *)
    rinv (fault (src b)) s1 /\ rem s1 = 0 /\ rfin s1 = true /\ pending (br s1) = tail /\
    wlog s1 = map WPong (pings_of fs) /\ hlog s1 = [] /\ hcount s1 = 0%nat /\
    opidx s1 = length ms /\
    (* the failing advanceFrame *)
    advance_frame c s1 = (AErr e, s2) /\ Post s1 s2 /\
    (* the final state *)
    sF = s2 <| rerror := Some e |> <| errcount := 1%nat |> <| opidx := S (length ms) |>.
Proof.
  set (k := fault (src b)).
  set (extra' := encode_frames (trailer fs) ++ tail).
  assert (Hx : extra' <> [] \/ k = EEOF).
  { left. subst extra'. intros H. apply app_eq_nil in H. destruct H as [_ H]. contradiction. }
  assert (Hp' : pending (br (init_rst b)) = encode_frames (body fs) ++ extra').
  { subst extra'. rewrite app_assoc, <- encode_frames_app, body_trailer. exact Hp. }
  destruct (run_msgsZ inflate k c extra' Hch Hx (length (body fs)) (body fs) (le_n _)
              (init_rst b) (rinv_init b Hinv Hbs) eq_refl eq_refl Hp' (conformantZ_body c fs Hconf))
    as (sA & Hrun & Hend & Hrem & Hfin & Hpend & Hwl).
  rewrite msgs_body in Hrun. rewrite trailer_body in Hpend. rewrite body_body in Hwl.
  cbn [encode_frames flat_map app] in Hpend. fold (encode_frames (trailer fs)) in Hpend.
  cbn [init_rst wlog app] in Hwl.
  change (msgs fs) with ms in Hrun.
  assert (HrinvA : rinv k sA).
  { apply rinv_end_rinv; [exact Hend|]. rewrite Hpend. subst extra'. destruct Hx as [Hx|Hx]; [exact Hx|].
    intros H. apply app_eq_nil in H. destruct H as [_ H]. contradiction. }
  destruct (default_handlers_never_log inflate c Hch _ _ _ _ Hrun) as (HhlA & HhcA).
  cbn [init_rst hlog hcount] in HhlA, HhcA.
  assert (HopA : opidx sA = length ms).
  { rewrite (run_readmsgs_opidx inflate c Hch (length ms) (map (out_ofZ inflate) ms) (init_rst b) sA Hrun
               (out_ofZ_not_panicZ _ _) (map_length _ _)). reflexivity. }
  (* the last call *)
  cbn [repeat]. rewrite repeat_cons.
  rewrite (run_ops_app inflate c _ _ _ _ [OReadMessage] Hrun (out_ofZ_not_panicZ _ _)).
  cbn [run_ops]. unfold rstep.
  destruct Hconf as (Hwf & Hseq & Hlen).
  assert (Hwft : Forall wf_frame (trailer fs)).
  { rewrite <- (body_trailer fs) in Hwf. apply Forall_app in Hwf. apply Hwf. }
  pose proof (seq_okZ_trailer (server c) (negotiated c) fs Hseq) as Hseqt.
  set (s0 := sA <| cur := None |> <| rlen := 0 |>).
  assert (Hrinv0 : rinv k s0) by (apply (rinv_same k sA); [exact HrinvA|reflexivity ..]).
  pose proof (encode_frames_length_ge (trailer fs)) as Hge.
  assert (Hfuel : exists f', fuel_of s0 = (length (trailer fs) + S f')%nat).
  { unfold fuel_of. change (br s0) with (br sA). rewrite Hpend. subst extra'. rewrite app_length.
    exists (S (length (encode_frames (trailer fs)) - length (trailer fs) + length tail))%nat. lia. }
  destruct Hfuel as (f' & Hfuel).
  assert (Hnf : custom_handlers c = true -> handler_fail c = []) by (rewrite Hch; discriminate).
  destruct (next_loop_ctls_genZ k c Hnf (trailer fs) s0 (S f') tail (trailer_all_ctl fs)
              Hrinv0 Hrem Hfin Hpend Hwft Hseqt)
    as (s1 & Hnl & Hrinv1 & Hrem1 & Hfin1 & Hp1 & HL1 & Ho1).
  change (opidx s0) with (opidx sA) in HL1, Ho1. change (L s0) with (L sA) in HL1.
  unfold L in HL1. rewrite (effs_default c _ Hch) in HL1. inversion HL1 as [[Hh1 Hn1 Hw1]]. clear HL1.
  destruct (Hfail s1 Hrinv1 Hrem1 Hfin1 Hp1) as (s2 & Hadv & HPost).
  pose proof Hrinv1 as (_ & _ & _ & Herr1 & _ & _ & _ & Hec1).
  rewrite (next_loop_step_err f' c s1 e s2 Herr1 Hadv) in Hnl. rewrite <- Hfuel in Hnl.
  pose proof (advance_frame_errcount c s1 _ s2 Hadv) as Hec2.
  rewrite (read_message_of_next_none inflate c sA _ e Hnl eq_refl) by (rsimpl; congruence).
  cbn [fst snd].
  exists s1, s2. eexists. split; [reflexivity|].
  split; [exact Hrinv1|]. split; [exact Hrem1|]. split; [exact Hfin1|]. split; [exact Hp1|].
  split; [rewrite Hw1, Hwl, <- map_app, pings_body_trailer; reflexivity|].
  split; [congruence|]. split; [congruence|]. split; [congruence|].
  split; [exact Hadv|]. split; [exact HPost|].
  rsimpl. rewrite (advance_frame_opidx c s1 _ s2 Hadv), Ho1, HopA. reflexivity.
Qed.
End PrefixThenFailZ.

(* default handlers: a close frame after (possibly compressed) messages is reported and echoed *)
Theorem read_messages_with_closeZ :
  forall inflate c b fs cf anything,
    custom_handlers c = false -> binv b -> (125 <= bsize b)%nat ->
    conformant_framesZ c fs -> valid_closeZ c cf ->
    pending b = encode_frames fs ++ encode_frame cf ++ anything ->
    let ms := data_msgs (events_of fs) in
    let code := close_code (payload cf) in
    let text := close_text (payload cf) in
    exists s',
      run_ops inflate c (init_rst b) (repeat OReadMessage (S (length ms))) =
        (map (out_ofZ inflate) ms ++ [RMsg 0 [] (Some (RClose code text))], s') /\
      rerror s' = Some (RClose code text) /\
      wlog s' = map WPong (pings_of fs) ++ [WCloseEcho (format_close code)] /\
      closesent s' = true /\ hlog s' = [] /\ outoffuel s' = false /\
      (* the bytes after the close frame are still there ... *)
      pending (br s') = anything /\
      (* ... and stay there: every later operation fails, delivers nothing, calls no handler,
         writes nothing and consumes nothing *)
      (forall ops, exists rs s'', run_ops inflate c s' ops = (rs, s'') /\
         Forall is_failure rs /\ br s'' = br s' /\ hlog s'' = hlog s' /\ wlog s'' = wlog s' /\
         rerror s'' = Some (RClose code text)).
Proof.
  intros inflate c b fs cf anything Hch Hinv Hbs Hconf (Hwfc & Hokc & Hopc & Hgood) Hp ms code text.
  set (Post := fun s1 s2 : rst =>
    wlog s2 = wlog s1 ++ [WCloseEcho (format_close code)] /\ closesent s2 = true /\
    hlog s2 = hlog s1 /\ pending (br s2) = anything /\ outoffuel s2 = false).
  destruct (prefix_then_failZ inflate c b fs (encode_frame cf ++ anything) (RClose code text) Post
              Hch Hinv Hbs Hconf Hp) as (s1 & s2 & sF & Hrun & Hrinv1 & Hrem1 & Hfin1 & Hp1 & Hwl1 & Hhl1 & Hhc1 & Hop1 & Hadv & HPost & HsF).
  { rewrite encode_frame_decomp. cbn [app]. discriminate. }
  { intros s Hrinv Hrem Hfin Hps.
    destruct (advance_close_defaultZ (fault (src b)) c s cf anything Hrinv Hwfc Hokc Hopc Hrem Hps Hch Hgood)
      as (s2 & Ha & A1 & A2 & A3 & A4 & A5 & A6 & A7 & A8 & A9 & A10).
    exists s2. split; [exact Ha|]. unfold Post. auto. }
  destruct HPost as (P1 & P2 & P3 & P4 & P5).
  exists sF. split; [exact Hrun|].
  assert (HeF : rerror sF = Some (RClose code text)) by (rewrite HsF; reflexivity).
  split; [exact HeF|].
  split; [rewrite HsF; rsimpl; rewrite P1, Hwl1; reflexivity|].
  split; [rewrite HsF; exact P2|]. split; [rewrite HsF; rsimpl; congruence|].
  split; [rewrite HsF; exact P5|]. split; [rewrite HsF; exact P4|].
  intros ops. destruct (errors_are_permanent inflate c ops sF _ HeF) as (rs & s'' & Hr & Hfz & Hfail).
  exists rs, s''. split; [exact Hr|]. split; [exact Hfail|].
  destruct (frozen_fields _ _ Hfz) as (F1 & F2 & F3 & F4). rewrite F4. auto.
Qed.

(* ------------------------------------------------------------------------------------------ *)
(* 4b. An error returned by a handler (control frame possibly carrying RSV1) is returned from  *)
(*     the read call and sticks                                                               *)
(* ------------------------------------------------------------------------------------------ *)
Lemma advance_handler_failsZ k c s f rest :
  rinv k s -> custom_handlers c = true -> wf_frame f -> ctl_okZ (negotiated c) (server c) f ->
  (opcode f = 8 -> close_body_bad (payload f) = false) ->
  rem s = 0 -> pending (br s) = encode_frame f ++ rest ->
  In (hcount s) (handler_fail c) ->
  exists s', advance_frame c s = (AErr (RHandler (N.of_nat (hcount s))), s') /\
    hlog s' = hlog s ++ [hev_of (opidx s) f] /\ hcount s' = S (hcount s) /\ wlog s' = wlog s /\
    pending (br s') = rest.
Proof.
  intros Hrinv Hc Hwf Hok Hcl Hrem Hp Hin. apply hfails_In in Hin.
  pose proof Hok as (_ & _ & [Hop|Hop] & _).
  - destruct (advance_close_customZ k c s f rest Hrinv Hwf Hok Hop Hrem Hp Hc (Hcl Hop))
      as (s' & Ha & A1 & A2 & A3 & A4 & A5 & _).
    rewrite Hin in Ha. exists s'. split; [exact Ha|].
    unfold hev_of. rewrite Hop. change (8 =? 9) with false. change (8 =? 10) with false. auto.
  - destruct (advance_ctl_customZ k c s f rest Hrinv Hc Hwf Hok Hop Hp)
      as (s' & Ha & _ & _ & _ & _ & A1 & A2 & A3 & A4 & _).
    rewrite Hin in Ha. exists s'. rewrite advance_frame_rem0 by exact Hrem. auto.
Qed.

Theorem handler_error_is_returned_and_permanentZ inflate k c s f rest :
  rinv k s -> custom_handlers c = true -> wf_frame f -> ctl_okZ (negotiated c) (server c) f ->
  (opcode f = 8 -> close_body_bad (payload f) = false) ->
  rem s = 0 -> pending (br s) = encode_frame f ++ rest ->
  In (hcount s) (handler_fail c) ->
  let e := RHandler (N.of_nat (hcount s)) in
  let logged s' := rerror s' = Some e /\ hlog s' = hlog s ++ [hev_of (opidx s) f] /\
                   wlog s' = wlog s /\ pending (br s') = rest in
  (exists s', next_reader c s = (RNext 0 (Some e), s') /\ logged s') /\
  (exists s', read_message inflate c s = (RMsg 0 [] (Some e), s') /\ logged s') /\
  (rfin s = false -> forall m, exists s', reader_read c m s = ([], Some e, s') /\ logged s') /\
  (forall s', rerror s' = Some e -> forall ops, exists rs s'',
     run_ops inflate c s' ops = (rs, s'') /\ frozen s' s'' /\ Forall is_failure rs).
Proof.
  intros Hrinv Hc Hwf Hok Hcl Hrem Hp Hin e logged.
  pose proof Hrinv as (_ & _ & _ & Herr & _ & _ & _ & Hec).
  set (s0 := s <| cur := None |> <| rlen := 0 |>).
  assert (Hrinv0 : rinv k s0) by (apply (rinv_same k s); [exact Hrinv|reflexivity ..]).
  destruct (advance_handler_failsZ k c s0 f rest Hrinv0 Hc Hwf Hok Hcl Hrem Hp Hin)
    as (s1 & Ha & A1 & A2 & A3 & A4).
  change (hcount s0) with (hcount s) in Ha. change (hlog s0) with (hlog s) in A1.
  change (opidx s0) with (opidx s) in A1. change (wlog s0) with (wlog s) in A3.
  split; [|split; [|split]].
  - eexists. split; [exact (next_reader_advance_err c s _ s1 Herr Hec Ha)|].
    unfold logged. rsimpl. auto.
  - eexists. split; [exact (read_message_advance_err inflate c s _ s1 Herr Hec Ha)|].
    unfold logged. rsimpl. auto.
  - intros Hfin m.
    destruct (advance_handler_failsZ k c s f rest Hrinv Hc Hwf Hok Hcl Hrem Hp Hin)
      as (s2 & Ha2 & B1 & B2 & B3 & B4).
    eexists. split; [exact (reader_read_advance_err c m s e s2 Herr Hrem Hfin eq_refl Ha2)|].
    unfold logged. rsimpl. auto.
  - intros s' He' ops. exact (errors_are_permanent inflate c ops s' e He').
Qed.

(* ------------------------------------------------------------------------------------------ *)
(* 5. Instances: the RSV = 0 theorems of CtlP.v follow from the ones above                    *)
(* ------------------------------------------------------------------------------------------ *)
Theorem handler_log_in_wire_order_from_Z :
  forall inflate c b fs extra,
    custom_handlers c = true -> handler_fail c = [] -> binv b -> (125 <= bsize b)%nat ->
    conformant_frames c fs -> pending b = encode_frames fs ++ extra ->
    (trailer fs = [] -> extra = [] -> fault (src b) = EEOF) ->
    let ms := data_msgs (events_of fs) in
    exists s',
      run_ops inflate c (init_rst b) (repeat OReadMessage (length ms)) = (map out_of ms, s') /\
      hlog s' = stamps 0 (body fs) /\
      map hev_payload (hlog s') = map ctl_payload (filter isctl (body fs)) /\
      hcount s' = length (hlog s') /\
      wlog s' = [] /\ closesent s' = false /\ outoffuel s' = false /\
      pending (br s') = encode_frames (trailer fs) ++ extra /\ opidx s' = length ms.
Proof.
  intros inflate c b fs extra Hc Hnf Hinv Hbs Hconf Hp Hside ms.
  destruct (handler_log_in_wire_orderZ inflate c b fs extra Hc Hnf Hinv Hbs (conformant_frames_Z c fs Hconf) Hp Hside)
    as (s' & Hrun & Hrest).
  exists s'. split; [|exact Hrest]. subst ms.
  rewrite <- (map_out_ofZ_uncompressed inflate _ (conformant_frames_uncompressed c fs Hconf)). exact Hrun.
Qed.

Theorem read_messages_with_close_from_Z :
  forall inflate c b fs cf anything,
    custom_handlers c = false -> binv b -> (125 <= bsize b)%nat ->
    conformant_frames c fs -> valid_close c cf ->
    pending b = encode_frames fs ++ encode_frame cf ++ anything ->
    let ms := data_msgs (events_of fs) in
    let code := close_code (payload cf) in
    let text := close_text (payload cf) in
    exists s',
      run_ops inflate c (init_rst b) (repeat OReadMessage (S (length ms))) =
        (map out_of ms ++ [RMsg 0 [] (Some (RClose code text))], s') /\
      rerror s' = Some (RClose code text) /\
      wlog s' = map WPong (pings_of fs) ++ [WCloseEcho (format_close code)] /\
      closesent s' = true /\ hlog s' = [] /\ outoffuel s' = false /\
      pending (br s') = anything.
Proof.
  intros inflate c b fs cf anything Hch Hinv Hbs Hconf Hcl Hp ms code text.
  destruct (read_messages_with_closeZ inflate c b fs cf anything Hch Hinv Hbs
              (conformant_frames_Z c fs Hconf) (valid_close_Z c cf Hcl) Hp)
    as (s' & Hrun & H1 & H2 & H3 & H4 & H5 & H6 & _).
  exists s'. split; [|auto 10]. subst ms.
  rewrite <- (map_out_ofZ_uncompressed inflate _ (conformant_frames_uncompressed c fs Hconf)). exact Hrun.
Qed.

Print Assumptions advance_ctl_genZ.
Print Assumptions advance_ctl_customZ.
Print Assumptions advance_close_defaultZ.
Print Assumptions advance_close_customZ.
Print Assumptions rg_genZ.
Print Assumptions read_message_genZ.
Print Assumptions handler_log_in_wire_orderZ.
Print Assumptions handler_sees_frame_during_its_messageZ.
Print Assumptions handler_log_with_closeZ.
Print Assumptions prefix_then_failZ.
Print Assumptions read_messages_with_closeZ.
Print Assumptions handler_error_is_returned_and_permanentZ.
Print Assumptions handler_log_in_wire_order_from_Z.
Print Assumptions read_messages_with_close_from_Z.
