(* Stream-view lemmas for the bufio.Reader model (WS.Model.Bufio).
   After these lemmas clients reason only about [pending b] (the logical byte stream still to
   come), [binv b], [bsize b] and [fault (src b)]; chunks and buffers never need to be opened. *)
Require Import WS.Base.Bytes.
Require Import WS.Model.Bufio.

Definition the_fault (b:bufio) : errk := fault (src b).

Definition binv (b:bufio) : Prop :=
  (0 < bsize b)%nat /\ (length (bbuf b) <= bsize b)%nat /\ wf_script (src b) /\
  (forall k, berr b = Some k -> chunks (src b) = [] /\ k = fault (src b)).

(* ---------- small list helpers ---------- *)
Lemma length_pos (l:bytes) : l <> [] -> (0 < length l)%nat.
Proof. destruct l as [|x r]; [congruence|]. intros _. cbn [length]. lia. Qed.

Lemma length_zero_nil (l:bytes) : length l = 0%nat -> l = [].
Proof. destruct l as [|x r]; [reflexivity|]. cbn [length]. lia. Qed.

Lemma firstn_nonnil (m:nat) (l:bytes) : (0 < m)%nat -> l <> [] -> firstn m l <> [].
Proof.
  intros Hm Hl. destruct l as [|x r]; [congruence|].
  destruct m as [|m']; [lia|]. cbn [firstn]. discriminate.
Qed.

Lemma firstn_app_le (n:nat) (l1 l2:bytes) :
  (n <= length l1)%nat -> firstn n (l1 ++ l2) = firstn n l1.
Proof.
  intros H. rewrite firstn_app. replace (n - length l1)%nat with 0%nat by lia.
  cbn [firstn]. apply app_nil_r.
Qed.

Lemma skipn_app_le (n:nat) (l1 l2:bytes) :
  (n <= length l1)%nat -> skipn n (l1 ++ l2) = skipn n l1 ++ l2.
Proof.
  intros H. rewrite skipn_app. replace (n - length l1)%nat with 0%nat by lia.
  cbn [skipn]. reflexivity.
Qed.

Lemma skipn_app_ge (n:nat) (l1 l2:bytes) :
  (length l1 <= n)%nat -> skipn n (l1 ++ l2) = skipn (n - length l1) l2.
Proof.
  intros H. rewrite skipn_app. rewrite (skipn_all2 l1) by exact H. reflexivity.
Qed.

Lemma wf_stream_nil s : wf_script s -> stream_of s = [] -> chunks s = [].
Proof.
  unfold wf_script, stream_of. intros Hwf Hs.
  destruct (chunks s) as [|c cs]; [reflexivity|].
  pose proof (Forall_inv Hwf) as Hc. cbn [concat] in Hs.
  apply app_eq_nil in Hs. destruct Hs as [Hc0 _]. contradiction.
Qed.

Lemma chunks_nil_stream s : chunks s = [] -> stream_of s = [].
Proof. unfold stream_of. intros ->. reflexivity. Qed.

(* ---------- 1. mk_bufio ---------- *)
Lemma binv_mk size init s :
  (0 < size)%nat -> (length init <= size)%nat -> wf_script s -> binv (mk_bufio size init s).
Proof.
  intros H1 H2 H3. unfold binv, mk_bufio; cbn [bsize bbuf berr src].
  split; [exact H1|]. split; [exact H2|]. split; [exact H3|].
  intros k Hk. discriminate Hk.
Qed.

Lemma pending_mk size init s : pending (mk_bufio size init s) = init ++ stream_of s.
Proof. reflexivity. Qed.

(* ---------- 2. one transport read ---------- *)
Lemma tread_spec s m d e s' :
  wf_script s -> (0 < m)%nat -> tread s m = (d, e, s') ->
  stream_of s = d ++ stream_of s' /\ wf_script s' /\ fault s' = fault s /\
  (length d <= m)%nat /\ (chunks s <> [] -> d <> []) /\
  (chunks s = [] -> d = [] /\ e = Some (fault s)) /\
  (forall k, e = Some k -> k = fault s /\ chunks s' = []).
Proof.
  intros Hwf Hm H. unfold tread in H. unfold stream_of, wf_script in *.
  destruct (chunks s) as [|c cs] eqn:Ec.
  - inversion H; subst d e s'. rewrite Ec. cbn [concat app length].
    split; [reflexivity|]. split; [constructor|]. split; [reflexivity|].
    split; [lia|]. split; [congruence|]. split; [auto|].
    intros k Hk. inversion Hk. auto.
  - pose proof (Forall_inv Hwf) as Hc. pose proof (Forall_inv_tail Hwf) as Hcs.
    destruct (Nat.leb (length c) m) eqn:El.
    + apply Nat.leb_le in El.
      destruct cs as [|c2 cs2].
      * destruct (glued s); inversion H; subst d e s'; cbn [chunks fault concat];
          (split; [reflexivity|]); (split; [constructor|]); (split; [reflexivity|]);
          (split; [exact El|]); (split; [intros _; exact Hc|]);
          (split; [intros Hx; discriminate Hx|]); intros k Hk; inversion Hk; auto.
      * inversion H; subst d e s'; cbn [chunks fault concat].
        split; [reflexivity|]. split; [exact Hcs|]. split; [reflexivity|].
        split; [exact El|]. split; [intros _; exact Hc|].
        split; [intros Hx; discriminate Hx|]. intros k Hk; discriminate Hk.
    + apply Nat.leb_gt in El.
      inversion H; subst d e s'; cbn [chunks fault concat].
      split; [rewrite app_assoc, firstn_skipn; reflexivity|].
      split.
      { constructor; [|exact Hcs]. intros Hx.
        assert (Hlen: length (skipn m c) = 0%nat) by (rewrite Hx; reflexivity).
        rewrite skipn_length in Hlen. lia. }
      split; [reflexivity|].
      split; [rewrite firstn_length; lia|].
      split; [intros _; apply firstn_nonnil; assumption|].
      split; [intros Hx; discriminate Hx|]. intros k Hk; discriminate Hk.
Qed.

(* ---------- fill / peek_loop ---------- *)
Lemma fill_spec b :
  binv b -> (length (bbuf b) < bsize b)%nat ->
  binv (fill b) /\ pending (fill b) = pending b /\ bsize (fill b) = bsize b /\
  fault (src (fill b)) = fault (src b) /\
  (chunks (src b) <> [] -> (length (bbuf b) < length (bbuf (fill b)))%nat) /\
  (chunks (src b) = [] -> berr (fill b) <> None).
Proof.
  intros (Hpos & Hlen & Hwf & Herr) Hlt. unfold fill.
  destruct (tread (src b) (bsize b - length (bbuf b))) as [[d e] s'] eqn:Et.
  apply tread_spec in Et; [|exact Hwf|lia].
  destruct Et as (Hs & Hwf' & Hf & Hl & Hne & Hemp & He).
  unfold binv, pending; cbn [bsize bbuf berr src].
  split.
  { split; [exact Hpos|]. split; [rewrite app_length; lia|]. split; [exact Hwf'|].
    intros k Hk. destruct (He k Hk) as [Hk1 Hk2]. split; [exact Hk2|]. congruence. }
  split; [rewrite Hs, app_assoc; reflexivity|].
  split; [reflexivity|]. split; [exact Hf|].
  split.
  - intros Hc. apply Hne in Hc. apply length_pos in Hc. rewrite app_length. lia.
  - intros Hc. destruct (Hemp Hc) as [_ ->]. discriminate.
Qed.

(* preservation: holds for any fuel and any n *)
Lemma peek_loop_pres fuel : forall n b,
  binv b ->
  binv (peek_loop fuel n b) /\ pending (peek_loop fuel n b) = pending b /\
  bsize (peek_loop fuel n b) = bsize b /\ fault (src (peek_loop fuel n b)) = fault (src b).
Proof.
  induction fuel as [|f IH]; intros n b Hinv; cbn [peek_loop]; [auto|].
  destruct (Nat.ltb (length (bbuf b)) n && Nat.ltb (length (bbuf b)) (bsize b)
            && match berr b with None => true | Some _ => false end)%bool eqn:Ec; [|auto].
  apply andb_true_iff in Ec. destruct Ec as [Ec _].
  apply andb_true_iff in Ec. destruct Ec as [_ Ec]. apply Nat.ltb_lt in Ec.
  destruct (fill_spec b Hinv Ec) as (Hinv1 & Hp1 & Hb1 & Hf1 & _).
  destruct (IH n (fill b) Hinv1) as (Hinv2 & Hp2 & Hb2 & Hf2).
  split; [exact Hinv2|]. split; [congruence|]. split; congruence.
Qed.

(* progress: with enough fuel the loop stops because the request is satisfied or an error is
   pending (every fill from a non-exhausted transport adds at least one byte) *)
Lemma peek_loop_prog fuel : forall n b,
  binv b -> (n <= bsize b)%nat ->
  ((n - length (bbuf b) < fuel)%nat \/ berr b <> None) ->
  (n <= length (bbuf (peek_loop fuel n b)))%nat \/ berr (peek_loop fuel n b) <> None.
Proof.
  induction fuel as [|f IH]; intros n b Hinv Hn Hfuel; cbn [peek_loop].
  - destruct Hfuel as [Hlt|Hne]; [lia|right; exact Hne].
  - destruct (Nat.ltb (length (bbuf b)) n && Nat.ltb (length (bbuf b)) (bsize b)
              && match berr b with None => true | Some _ => false end)%bool eqn:Ec.
    + apply andb_true_iff in Ec. destruct Ec as [Ec Ec3].
      apply andb_true_iff in Ec. destruct Ec as [Ec1 Ec2].
      apply Nat.ltb_lt in Ec1. apply Nat.ltb_lt in Ec2.
      destruct (berr b) as [k0|] eqn:Eb; [discriminate Ec3|].
      destruct (fill_spec b Hinv Ec2) as (Hinv1 & Hp1 & Hb1 & Hf1 & Hgrow & Hstop).
      apply IH; [exact Hinv1|rewrite Hb1; exact Hn|].
      destruct (chunks (src b)) as [|c cs] eqn:Ech.
      * right. apply Hstop. reflexivity.
      * left. assert (Hg: (length (bbuf b) < length (bbuf (fill b)))%nat)
          by (apply Hgrow; discriminate).
        destruct Hfuel as [Hlt|Hne]; [lia|congruence].
    + apply andb_false_iff in Ec. destruct Ec as [Ec|Ec3].
      * apply andb_false_iff in Ec. destruct Ec as [Ec1|Ec2].
        -- apply Nat.ltb_ge in Ec1. left. exact Ec1.
        -- apply Nat.ltb_ge in Ec2. left. lia.
      * right. destruct (berr b); [discriminate|discriminate Ec3].
Qed.

(* when an error is pending the transport is exhausted, so the buffer is the whole stream *)
Lemma binv_err_pending b : binv b -> berr b <> None ->
  pending b = bbuf b /\ berr b = Some (fault (src b)).
Proof.
  intros (_ & _ & _ & Herr) Hne. destruct (berr b) as [k|] eqn:Eb; [|congruence].
  destruct (Herr k eq_refl) as [Hc Hk]. unfold pending.
  rewrite (chunks_nil_stream _ Hc), app_nil_r. split; [reflexivity|congruence].
Qed.

Lemma length_bbuf_pending b : (length (bbuf b) <= length (pending b))%nat.
Proof. unfold pending. rewrite app_length. lia. Qed.

(* ---------- 3. Peek(n)+Discard with enough bytes ---------- *)
Lemma peek_discard_enough n b :
  binv b -> (n <= bsize b)%nat -> (n <= length (pending b))%nat ->
  exists b', br_peek_discard n b = (firstn n (pending b), None, b') /\
    pending b' = skipn n (pending b) /\ binv b' /\ bsize b' = bsize b /\
    fault (src b') = fault (src b).
Proof.
  intros Hinv Hn Hp.
  destruct (peek_loop_pres (S n) n b Hinv) as (Hinv1 & Hp1 & Hb1 & Hf1).
  assert (Hprog: (n <= length (bbuf (peek_loop (S n) n b)))%nat \/
                 berr (peek_loop (S n) n b) <> None)
    by (apply peek_loop_prog; [exact Hinv|exact Hn|left; lia]).
  unfold br_peek_discard. cbv zeta.
  remember (peek_loop (S n) n b) as b1 eqn:Eb1. clear Eb1.
  assert (Hge: (n <= length (bbuf b1))%nat).
  { destruct Hprog as [Hge|Hne]; [exact Hge|].
    destruct (binv_err_pending b1 Hinv1 Hne) as [Hpb _].
    rewrite <- Hpb, Hp1. exact Hp. }
  replace (Nat.ltb (bsize b1) n) with false by (symmetry; apply Nat.ltb_ge; lia).
  replace (Nat.leb n (length (bbuf b1))) with true by (symmetry; apply Nat.leb_le; exact Hge).
  eexists. split.
  { f_equal. f_equal. rewrite <- Hp1. unfold pending. symmetry. apply firstn_app_le. exact Hge. }
  unfold pending at 1; cbn [bsize bbuf berr src].
  split.
  { rewrite <- Hp1. unfold pending. symmetry. apply skipn_app_le. exact Hge. }
  split.
  { destruct Hinv1 as (Hpos1 & Hlen1 & Hwf1 & Herr1).
    unfold binv; cbn [bsize bbuf berr src].
    split; [exact Hpos1|]. split; [rewrite skipn_length; lia|]. split; [exact Hwf1|exact Herr1]. }
  split; [exact Hb1|exact Hf1].
Qed.

(* ---------- 4. Peek(n)+Discard when the stream runs out ---------- *)
(* strong form: the partial bytes returned are exactly the rest of the stream *)
Lemma peek_discard_short_strong n b :
  binv b -> (n <= bsize b)%nat -> (length (pending b) < n)%nat ->
  exists b', br_peek_discard n b = (pending b, Some (BErr (fault (src b))), b') /\
    pending b' = [] /\ binv b' /\ bsize b' = bsize b /\ fault (src b') = fault (src b).
Proof.
  intros Hinv Hn Hp.
  destruct (peek_loop_pres (S n) n b Hinv) as (Hinv1 & Hp1 & Hb1 & Hf1).
  assert (Hprog: (n <= length (bbuf (peek_loop (S n) n b)))%nat \/
                 berr (peek_loop (S n) n b) <> None)
    by (apply peek_loop_prog; [exact Hinv|exact Hn|left; lia]).
  unfold br_peek_discard. cbv zeta.
  remember (peek_loop (S n) n b) as b1 eqn:Eb1. clear Eb1.
  pose proof (length_bbuf_pending b1) as Hbp. rewrite Hp1 in Hbp.
  assert (Hne: berr b1 <> None) by (destruct Hprog as [Hge|Hne]; [lia|exact Hne]).
  destruct (binv_err_pending b1 Hinv1 Hne) as [Hpb Hek].
  replace (Nat.ltb (bsize b1) n) with false by (symmetry; apply Nat.ltb_ge; lia).
  replace (Nat.leb n (length (bbuf b1))) with false by (symmetry; apply Nat.leb_gt; lia).
  rewrite Hek, <- Hpb, Hp1, Hf1.
  eexists. split; [reflexivity|].
  destruct Hinv1 as (Hpos1 & Hlen1 & Hwf1 & Herr1).
  destruct (Herr1 _ Hek) as [Hch _].
  unfold pending at 1, binv; cbn [bsize bbuf berr src].
  split; [rewrite (chunks_nil_stream _ Hch); reflexivity|].
  split.
  { split; [exact Hpos1|]. split; [cbn [length]; lia|]. split; [exact Hwf1|].
    intros k Hk; discriminate Hk. }
  split; [exact Hb1|exact Hf1].
Qed.

Lemma peek_discard_short n b :
  binv b -> (n <= bsize b)%nat -> (length (pending b) < n)%nat ->
  exists p b', br_peek_discard n b = (p, Some (BErr (fault (src b))), b') /\
    pending b' = [] /\ binv b' /\ bsize b' = bsize b /\ fault (src b') = fault (src b).
Proof.
  intros Hinv Hn Hp.
  destruct (peek_discard_short_strong n b Hinv Hn Hp) as (b' & H).
  exists (pending b), b'. exact H.
Qed.

(* bonus: a request larger than the buffer always fails with ErrBufferFull; and
   br_peek_discard preserves the invariant unconditionally *)
Lemma peek_discard_binv n b :
  binv b ->
  binv (snd (br_peek_discard n b)) /\ bsize (snd (br_peek_discard n b)) = bsize b /\
  fault (src (snd (br_peek_discard n b))) = fault (src b).
Proof.
  intros Hinv.
  destruct (peek_loop_pres (S n) n b Hinv) as (Hinv1 & Hp1 & Hb1 & Hf1).
  unfold br_peek_discard. cbv zeta.
  remember (peek_loop (S n) n b) as b1 eqn:Eb1. clear Eb1.
  destruct Hinv1 as (Hpos1 & Hlen1 & Hwf1 & Herr1).
  destruct (Nat.ltb (bsize b1) n); [|destruct (Nat.leb n (length (bbuf b1)))];
    unfold binv; cbn [snd bsize bbuf berr src].
  - split; [|split; [exact Hb1|exact Hf1]].
    split; [exact Hpos1|]. split; [cbn [length]; lia|]. split; [exact Hwf1|exact Herr1].
  - split; [|split; [exact Hb1|exact Hf1]].
    split; [exact Hpos1|]. split; [rewrite skipn_length; lia|]. split; [exact Hwf1|exact Herr1].
  - split; [|split; [exact Hb1|exact Hf1]].
    split; [exact Hpos1|]. split; [cbn [length]; lia|]. split; [exact Hwf1|].
    intros k Hk; discriminate Hk.
Qed.

Lemma peek_discard_toobig n b :
  binv b -> (bsize b < n)%nat ->
  exists p b', br_peek_discard n b = (p, Some BBufferFull, b') /\
    binv b' /\ bsize b' = bsize b /\ fault (src b') = fault (src b).
Proof.
  intros Hinv Hn.
  pose proof (peek_discard_binv n b Hinv) as Hpres.
  destruct (peek_loop_pres (S n) n b Hinv) as (_ & _ & Hb1 & _).
  unfold br_peek_discard in *. cbv zeta in *.
  remember (peek_loop (S n) n b) as b1 eqn:Eb1. clear Eb1.
  replace (Nat.ltb (bsize b1) n) with true in * by (symmetry; apply Nat.ltb_lt; lia).
  cbn [snd] in Hpres. eexists. eexists. split; [reflexivity|exact Hpres].
Qed.

(* ---------- 5./6. bufio Read ---------- *)
Lemma br_read_some m b :
  binv b -> (0 < m)%nat -> pending b <> [] ->
  exists d e b', br_read m b = (d, e, b') /\ d <> [] /\ (length d <= m)%nat /\
    pending b = d ++ pending b' /\ binv b' /\ bsize b' = bsize b /\
    fault (src b') = fault (src b) /\
    (e = None \/ (e = Some (fault (src b)) /\ pending b' = [])).
Proof.
  intros Hinv Hm Hp. pose proof Hinv as (Hpos & Hlen & Hwf & Herr).
  rewrite (br_read_pos _ _ Hm); unfold br_read_nz. destruct (bbuf b) as [|x r] eqn:Ebuf.
  - assert (Hps: pending b = stream_of (src b)) by (unfold pending; rewrite Ebuf; reflexivity).
    destruct (berr b) as [k|] eqn:Eb.
    { exfalso. destruct (Herr k eq_refl) as [Hc _]. apply Hp. rewrite Hps.
      apply chunks_nil_stream. exact Hc. }
    assert (Hch: chunks (src b) <> []).
    { intros Hc. apply Hp. rewrite Hps. apply chunks_nil_stream. exact Hc. }
    destruct (Nat.leb (bsize b) m) eqn:Elm.
    + destruct (tread (src b) m) as [[d e] s'] eqn:Et.
      apply tread_spec in Et; [|exact Hwf|exact Hm].
      destruct Et as (Hs & Hwf' & Hf & Hl & Hne & Hemp & He).
      exists d, e. eexists. split; [reflexivity|].
      unfold pending at 2 3, binv; cbn [bsize bbuf berr src app].
      split; [apply Hne; exact Hch|]. split; [exact Hl|].
      split; [rewrite Hps; exact Hs|].
      split.
      { split; [exact Hpos|]. split; [cbn [length]; lia|]. split; [exact Hwf'|].
        intros k Hk; discriminate Hk. }
      split; [reflexivity|]. split; [exact Hf|].
      destruct e as [k|]; [right|left; reflexivity].
      destruct (He k eq_refl) as [Hk Hc']. split; [congruence|].
      apply chunks_nil_stream. exact Hc'.
    + apply Nat.leb_gt in Elm.
      destruct (tread (src b) (bsize b)) as [[d e] s'] eqn:Et.
      apply tread_spec in Et; [|exact Hwf|exact Hpos].
      destruct Et as (Hs & Hwf' & Hf & Hl & Hne & Hemp & He).
      pose proof (Hne Hch) as Hd.
      destruct d as [|y d'] eqn:Ed; [congruence|]. rewrite <- Ed in *. clear Ed.
      exists (firstn m d), None. eexists. split; [reflexivity|].
      unfold pending at 2, binv; cbn [bsize bbuf berr src].
      split; [apply firstn_nonnil; assumption|].
      split; [rewrite firstn_length; lia|].
      split; [rewrite Hps, Hs, app_assoc, firstn_skipn; reflexivity|].
      split.
      { split; [exact Hpos|]. split; [rewrite skipn_length; lia|]. split; [exact Hwf'|].
        intros k Hk. destruct (He k Hk) as [Hk1 Hk2]. split; [exact Hk2|congruence]. }
      split; [reflexivity|]. split; [exact Hf|]. left; reflexivity.
  - rewrite <- Ebuf in *.
    exists (firstn m (bbuf b)), None. eexists. split; [reflexivity|].
    unfold pending at 2, binv; cbn [bsize bbuf berr src].
    split; [apply firstn_nonnil; [exact Hm|rewrite Ebuf; discriminate]|].
    split; [rewrite firstn_length; lia|].
    split; [unfold pending; rewrite app_assoc, firstn_skipn; reflexivity|].
    split.
    { split; [exact Hpos|]. split; [rewrite skipn_length; lia|]. split; [exact Hwf|exact Herr]. }
    split; [reflexivity|]. split; [reflexivity|]. left; reflexivity.
Qed.

Lemma br_read_empty m b :
  binv b -> (0 < m)%nat -> pending b = [] ->
  exists b', br_read m b = ([], Some (fault (src b)), b') /\ pending b' = [] /\ binv b' /\
    bsize b' = bsize b /\ fault (src b') = fault (src b).
Proof.
  intros Hinv Hm Hp. pose proof Hinv as (Hpos & Hlen & Hwf & Herr).
  unfold pending in Hp. apply app_eq_nil in Hp. destruct Hp as [Hbuf Hstr].
  pose proof (wf_stream_nil _ Hwf Hstr) as Hch.
  rewrite (br_read_pos _ _ Hm); unfold br_read_nz. rewrite Hbuf.
  destruct (berr b) as [k|] eqn:Eb.
  - destruct (Herr k eq_refl) as [_ Hk]. subst k.
    eexists. split; [reflexivity|].
    unfold pending, binv; cbn [bsize bbuf berr src app].
    split; [exact Hstr|].
    split.
    { split; [exact Hpos|]. split; [cbn [length]; lia|]. split; [exact Hwf|].
      intros k Hk; discriminate Hk. }
    split; reflexivity.
  - destruct (Nat.leb (bsize b) m) eqn:Elm.
    + destruct (tread (src b) m) as [[d e] s'] eqn:Et.
      apply tread_spec in Et; [|exact Hwf|exact Hm].
      destruct Et as (Hs & Hwf' & Hf & Hl & Hne & Hemp & He).
      destruct (Hemp Hch) as [-> ->].
      destruct (He _ eq_refl) as [_ Hc'].
      eexists. split; [reflexivity|].
      unfold pending, binv; cbn [bsize bbuf berr src app].
      split; [apply chunks_nil_stream; exact Hc'|].
      split.
      { split; [exact Hpos|]. split; [cbn [length]; lia|]. split; [exact Hwf'|].
        intros k Hk; discriminate Hk. }
      split; [reflexivity|exact Hf].
    + destruct (tread (src b) (bsize b)) as [[d e] s'] eqn:Et.
      apply tread_spec in Et; [|exact Hwf|exact Hpos].
      destruct Et as (Hs & Hwf' & Hf & Hl & Hne & Hemp & He).
      destruct (Hemp Hch) as [-> ->].
      destruct (He _ eq_refl) as [_ Hc'].
      eexists. split; [reflexivity|].
      unfold pending, binv; cbn [bsize bbuf berr src app].
      split; [apply chunks_nil_stream; exact Hc'|].
      split.
      { split; [exact Hpos|]. split; [cbn [length]; lia|]. split; [exact Hwf'|].
        intros k Hk; discriminate Hk. }
      split; [reflexivity|exact Hf].
Qed.

(* ---------- 7./8. io.CopyN(io.Discard, br, n) ---------- *)
Lemma copyn_enough fuel : forall n b,
  binv b -> n <= blen (pending b) -> (length (pending b) < fuel)%nat ->
  exists b', copyn_discard fuel n b = (None, b', false) /\
    pending b' = dropN n (pending b) /\ binv b' /\ bsize b' = bsize b /\
    fault (src b') = fault (src b).
Proof.
  induction fuel as [|f IH]; intros n b Hinv Hn Hf; [lia|].
  cbn [copyn_discard].
  destruct (n =? 0) eqn:En.
  - apply N.eqb_eq in En. subst n. exists b. unfold dropN. cbn [N.to_nat skipn]. auto.
  - apply N.eqb_neq in En.
    assert (Hm: (0 < N.to_nat (N.min n discard_buf))%nat) by (unfold discard_buf; lia).
    assert (Hp: pending b <> []).
    { intros E. rewrite E in Hn. unfold blen in Hn. cbn [length] in Hn. lia. }
    destruct (br_read_some _ b Hinv Hm Hp)
      as (d & e & b' & Hbr & Hd & Hl & Hpd & Hinv' & Hbs & Hfl & He).
    cbv zeta. rewrite Hbr. cbv beta iota.
    apply length_pos in Hd.
    assert (Hlen: length (pending b) = (length d + length (pending b'))%nat)
      by (rewrite Hpd, app_length; reflexivity).
    unfold blen in *. unfold discard_buf in Hl.
    destruct He as [->|[-> Hpe]].
    + destruct (IH (n - N.of_nat (length d)) b' Hinv') as (b'' & Hc & Hp'' & Hinv'' & Hbs'' & Hfl'');
        [lia|lia|].
      exists b''. split; [exact Hc|].
      split.
      { rewrite Hp'', Hpd. unfold dropN. rewrite skipn_app_ge by lia. f_equal. lia. }
      split; [exact Hinv''|]. split; congruence.
    + rewrite Hpe in Hlen. cbn [length] in Hlen.
      replace (n - N.of_nat (length d) =? 0) with true by (symmetry; apply N.eqb_eq; lia).
      exists b'. split; [reflexivity|].
      split.
      { rewrite Hpe, Hpd, Hpe, app_nil_r. unfold dropN. symmetry. apply skipn_all2. lia. }
      split; [exact Hinv'|]. split; [exact Hbs|exact Hfl].
Qed.

Lemma copyn_short fuel : forall n b,
  binv b -> blen (pending b) < n -> (length (pending b) < fuel)%nat ->
  exists b', copyn_discard fuel n b = (Some (fault (src b)), b', false) /\
    pending b' = [] /\ binv b' /\ bsize b' = bsize b /\ fault (src b') = fault (src b).
Proof.
  induction fuel as [|f IH]; intros n b Hinv Hn Hf; [lia|].
  cbn [copyn_discard]. unfold blen in Hn.
  replace (n =? 0) with false by (symmetry; apply N.eqb_neq; lia).
  assert (Hm: (0 < N.to_nat (N.min n discard_buf))%nat) by (unfold discard_buf; lia).
  destruct (pending b) as [|x r] eqn:Ep.
  - destruct (br_read_empty _ b Hinv Hm Ep) as (b' & Hbr & Hp' & Hinv' & Hbs & Hfl).
    cbv zeta. rewrite Hbr. cbv beta iota. unfold blen. cbn [length N.of_nat].
    replace (n - 0 =? 0) with false by (symmetry; apply N.eqb_neq; lia).
    exists b'. auto.
  - rewrite <- Ep in *.
    assert (Hp: pending b <> []) by (rewrite Ep; discriminate).
    destruct (br_read_some _ b Hinv Hm Hp)
      as (d & e & b' & Hbr & Hd & Hl & Hpd & Hinv' & Hbs & Hfl & He).
    cbv zeta. rewrite Hbr. cbv beta iota.
    apply length_pos in Hd.
    assert (Hlen: length (pending b) = (length d + length (pending b'))%nat)
      by (rewrite Hpd, app_length; reflexivity).
    unfold blen in *. unfold discard_buf in Hl.
    destruct He as [->|[-> Hpe]].
    + destruct (IH (n - N.of_nat (length d)) b' Hinv') as (b'' & Hc & Hp'' & Hinv'' & Hbs'' & Hfl'');
        [lia|lia|].
      exists b''. split; [rewrite Hc, Hfl; reflexivity|].
      split; [exact Hp''|]. split; [exact Hinv''|]. split; congruence.
    + rewrite Hpe in Hlen. cbn [length] in Hlen.
      replace (n - N.of_nat (length d) =? 0) with false by (symmetry; apply N.eqb_neq; lia).
      exists b'. split; [reflexivity|]. split; [exact Hpe|].
      split; [exact Hinv'|]. split; [exact Hbs|exact Hfl].
Qed.

(* ---------- 9. brNetConn ---------- *)
Lemma brnetconn_stream buffered sock :
  stream_of (brnetconn_script buffered sock) = buffered ++ stream_of sock.
Proof. unfold brnetconn_script, stream_of. destruct buffered as [|x r]; reflexivity. Qed.

Lemma brnetconn_wf buffered sock :
  wf_script sock -> wf_script (brnetconn_script buffered sock).
Proof.
  unfold brnetconn_script, wf_script. intros H. destruct buffered as [|x r]; [exact H|].
  cbn [chunks]. constructor; [discriminate|exact H].
Qed.

Lemma brnetconn_fault buffered sock :
  fault (brnetconn_script buffered sock) = fault sock.
Proof. unfold brnetconn_script. destruct buffered as [|x r]; reflexivity. Qed.

(* ---------- 10. exact reads do not depend on chunking / buffering ---------- *)
Lemma peek_discard_chunking n b1 b2 :
  binv b1 -> binv b2 -> pending b1 = pending b2 ->
  (n <= bsize b1)%nat -> (n <= bsize b2)%nat -> (n <= length (pending b1))%nat ->
  fst (fst (br_peek_discard n b1)) = fst (fst (br_peek_discard n b2)).
Proof.
  intros Hi1 Hi2 Hp Hn1 Hn2 Hl.
  destruct (peek_discard_enough n b1 Hi1 Hn1 Hl) as (b1' & H1 & _).
  rewrite Hp in Hl.
  destruct (peek_discard_enough n b2 Hi2 Hn2 Hl) as (b2' & H2 & _).
  rewrite H1, H2. cbn [fst]. rewrite Hp. reflexivity.
Qed.

Print Assumptions binv_mk.
Print Assumptions pending_mk.
Print Assumptions tread_spec.
Print Assumptions peek_discard_enough.
Print Assumptions peek_discard_short_strong.
Print Assumptions peek_discard_short.
Print Assumptions peek_discard_binv.
Print Assumptions peek_discard_toobig.
Print Assumptions br_read_some.
Print Assumptions br_read_empty.
Print Assumptions copyn_enough.
Print Assumptions copyn_short.
Print Assumptions brnetconn_stream.
Print Assumptions brnetconn_wf.
Print Assumptions brnetconn_fault.
Print Assumptions peek_discard_chunking.
