(* C19: a PreparedMessage equals WriteMessage on every connection it is sent to.

   Model: WS.Model.Prepared (prepared.go), WS.Model.Writer (conn.go), the case-format step
   [cstep] of WS.Cases.WriterCase (WritePreparedMessage) and WS.Cases.C19.

   The payload of a prepared message is the one given at creation: [new_prepared] stores [data]
   in [p_data] and nothing ever changes it ([frame_for_keeps_payload]).  The caller's slice that
   the Go code copies from does not exist in the model: a later modification of it is simply not
   an event of the model (the harness carries the payload as given at creation).

   Helper files: PrepBase.v (fault-free calculus of Conn.write / flushFrame), PrepFrames.v (the
   frame sequence of one message on the Spec side), PrepLoop.v (the copy loop), PrepMsg.v
   (WriteMessage: fast path and message-writer path). *)
Require Import WS.Base.Bytes WS.gen.Consts WS.Spec.Frame WS.Proofs.FrameP WS.Model.Writer.
From RecordUpdate Require Import RecordSet.
Import RecordSetNotations.
Require Import WS.Model.Prepared WS.Cases.WriterCase.
Require Import WS.Proofs.WWBase WS.Proofs.WWInv WS.Proofs.WWDead WS.Proofs.WWPrep.
Require WS.Proofs.WriterStateP WS.Proofs.WriterWireP.
Require Import WS.Proofs.WWFlate.
Require Import WS.Proofs.PrepBase WS.Proofs.PrepFrames WS.Proofs.PrepLoop WS.Proofs.PrepMsg WS.Proofs.PrepFlate.
Ltac Zify.zify_post_hook ::= Z.div_mod_to_equations.

(* ------------------------------------------------------------------------------------------ *)
(* 1. render is WriteMessage on a private connection                                          *)
(* ------------------------------------------------------------------------------------------ *)
(* the private connection's initial state *)
Definition rs0 (k:pkey) (keys:list bytes) : wst := (init_wst (pcfg k) keys None) <| level := pk_level k |>.

Theorem render_is_write_message k ty data keys wc cc e s1 :
  write_message (pcfg k) ty data [] wc cc ((init_wst (pcfg k) keys None) <| level := pk_level k |>) = (e, s1) ->
  render k ty data keys wc cc = (e, wire_of (evs s1)).
Proof. intros H. unfold render. cbv zeta. rewrite H. reflexivity. Qed.

Corollary render_eq k ty data keys wc cc :
  render k ty data keys wc cc =
  (fst (write_message (pcfg k) ty data [] wc cc (rs0 k keys)),
   wire (snd (write_message (pcfg k) ty data [] wc cc (rs0 k keys)))).
Proof.
  destruct (write_message (pcfg k) ty data [] wc cc (rs0 k keys)) as [e s1] eqn:E.
  apply render_is_write_message. exact E.
Qed.

Lemma rs0_proj k keys :
  cur (rs0 k keys) = None /\ werr (rs0 k keys) = None /\ fail_at (rs0 k keys) = None /\
  Writer.keys (rs0 k keys) = keys /\ wire (rs0 k keys) = [] /\ wcomp (rs0 k keys) = true.
Proof. unfold rs0, init_wst, wire, evs. wsimpl. repeat split; reflexivity. Qed.

Lemma cap_pcfg k : cap (pcfg k) = 4096.
Proof. reflexivity. Qed.

(* a key for which no compression is applied, on the server side: render is a closed formula *)
Definition server_plain (k:pkey) : Prop := pk_server k = true /\ pk_compress k = false.

Definition plain_result (ty:N) (data:bytes) : option werror * bytes :=
  if negb (is_control_ty ty) && negb (is_data_ty ty) then (Some WBadOpCode, [])
  else if is_control_ty ty && (125 <? blen data) then (Some WInvalidControl, [])
  else (None, frame_header (ty + c_finalBit) 0 (blen data) ++ data).

Lemma render_server_plain k ty data keys wc cc : server_plain k ->
  render k ty data keys wc cc = plain_result ty data.
Proof.
  intros [HS HCm]. rewrite render_eq. unfold plain_result.
  destruct (rs0_proj k keys) as (R1 & R2 & R3 & R4 & R5 & R6).
  destruct (write_message_fast (pcfg k) ty data [] wc cc (rs0 k keys) R1 R2 R3)
    as [(V & E)|[(V1 & V2 & s' & E & W & _)|(V & s' & E & W & _)]].
  - cbn [pcfg w_server w_negotiated]. rewrite HS, HCm. reflexivity.
  - rewrite E, V. cbn [fst snd]. rewrite R5. reflexivity.
  - rewrite E, V1. cbn [fst snd negb andb]. replace (125 <? blen data) with true by lia.
    rewrite W, R5. reflexivity.
  - rewrite E. cbn [fst snd]. rewrite W, R5, server_frame_bytes. cbn [List.app].
    destruct V as [V|[V1 V2]].
    + rewrite V, (data_not_control _ V). cbn [negb andb]. rewrite ?andb_false_r. reflexivity.
    + rewrite V1. cbn [negb andb]. replace (125 <? blen data) with false by lia. reflexivity.
Qed.

(* render for such a key is a pure function of (type, payload): neither the level in the key,
   nor the mask-key oracle, nor the flate oracles matter *)
Corollary render_server_plain_pure k ty data keys wc cc : server_plain k ->
  render k ty data keys wc cc = render k ty data [] [] [].
Proof. intros H. rewrite !render_server_plain by exact H. reflexivity. Qed.

Corollary render_server_plain_any_level k k' ty data keys wc cc keys' wc' cc' :
  server_plain k -> server_plain k' -> render k ty data keys wc cc = render k' ty data keys' wc' cc'.
Proof. intros H H'. rewrite !render_server_plain by assumption. reflexivity. Qed.

(* ------------------------------------------------------------------------------------------ *)
(* 3. NewPreparedMessage refuses what WriteMessage refuses                                    *)
(* ------------------------------------------------------------------------------------------ *)
Definition k_plain : pkey := {| pk_server := true; pk_compress := false; pk_level := 0 |}.

Lemma new_prepared_eq ty data :
  new_prepared ty data =
  (fst (plain_result ty data),
   {| p_ty := ty; p_data := data; p_cache := [(k_plain, snd (plain_result ty data))] |}).
Proof.
  unfold new_prepared. cbv zeta. fold k_plain.
  rewrite (render_server_plain k_plain ty data [] [] []) by (split; reflexivity).
  destruct (plain_result ty data); reflexivity.
Qed.

Theorem new_prepared_refuses_invalid ty data :
  (is_control_ty ty = false -> is_data_ty ty = false -> fst (new_prepared ty data) = Some WBadOpCode) /\
  (is_control_ty ty = true -> 125 < blen data -> fst (new_prepared ty data) = Some WInvalidControl) /\
  (msg_valid ty data -> fst (new_prepared ty data) = None).
Proof.
  rewrite new_prepared_eq. cbn [fst]. unfold plain_result. repeat split.
  - intros -> ->. reflexivity.
  - intros H1 H2. rewrite H1. cbn [negb andb]. replace (125 <? blen data) with true by lia. reflexivity.
  - intros [V|[V1 V2]].
    + rewrite V, (data_not_control _ V). cbn [negb andb]. rewrite ?andb_false_r. reflexivity.
    + rewrite V1. cbn [negb andb]. replace (125 <? blen data) with false by lia. reflexivity.
Qed.

(* ... exactly as WriteMessage does on a live server connection that takes the fast path *)
Theorem new_prepared_error_is_write_message_error c s ty data ic wc cc :
  cur s = None -> werr s = None -> fail_at s = None ->
  w_server c && (negb (w_negotiated c) || negb (wcomp s)) = true ->
  fst (new_prepared ty data) = fst (write_message c ty data ic wc cc s).
Proof.
  intros HC HW HF Hfast. rewrite new_prepared_eq. cbn [fst]. unfold plain_result.
  destruct (write_message_fast c ty data ic wc cc s HC HW HF Hfast)
    as [(V & E)|[(V1 & V2 & s' & E & _)|(V & s' & E & _)]]; rewrite E; cbn [fst].
  - rewrite V. reflexivity.
  - rewrite V1. cbn [negb andb]. replace (125 <? blen data) with true by lia. reflexivity.
  - destruct V as [V|[V1 V2]].
    + rewrite V, (data_not_control _ V). cbn [negb andb]. rewrite ?andb_false_r. reflexivity.
    + rewrite V1. cbn [negb andb]. replace (125 <? blen data) with false by lia. reflexivity.
Qed.

(* ------------------------------------------------------------------------------------------ *)
(* One uncompressed message on the wire: what the Spec decoder makes of it                    *)
(* ------------------------------------------------------------------------------------------ *)
Definition expected_event (ty:N) (data:bytes) : event :=
  if is_data_ty ty then EMsg ty false data else ECtl ty data.

Lemma msgfs_message_ok client ng ty (l:list kc) km ch data :
  msg_valid ty data -> blen data < 2^62 -> concat (map snd l) ++ ch = data ->
  Forall (fun x : kc => kc_ok client (fst x)) l -> kc_ok client km ->
  (l <> [] -> is_control_ty ty = false) ->
  Forall wf_frame (msgfs ty 0 l km ch) /\
  wf_wire client ng (tag (msgfs ty 0 l km ch)) = true /\
  open_after false (tag (msgfs ty 0 l km ch)) = false /\
  events_of (msgfs ty 0 l km ch) = [expected_event ty data].
Proof.
  intros HV HB HD HL HK HN.
  assert (Hch : blen ch < 2^63).
  { assert (X : blen data = blen (concat (map snd l)) + blen ch) by (rewrite <- HD; apply blen_app). lia. }
  assert (HL' : Forall (fun x : kc => kc_ok client (fst x) /\ blen (snd x) < 2^63) l).
  { pose proof (chunk_le l) as C. rewrite Forall_forall in *. intros x Hx. split; [apply HL; exact Hx|].
    specialize (C x Hx). cbv beta in C.
    assert (X : blen data = blen (concat (map snd l)) + blen ch) by (rewrite <- HD; apply blen_app). lia. }
  unfold expected_event. destruct HV as [V|[V1 V2]].
  - destruct (wf_msgfs client ng ty 0 l km ch (data_ty_ok _ V) (or_introl eq_refl) HL' HK Hch) as (A & B & C).
    rewrite V. rewrite (events_msgfs ty 0 l km ch (data_is_not_control _ V)), HD. auto.
  - assert (l = []).
    { destruct l; [reflexivity|]. specialize (HN ltac:(discriminate)). congruence. }
    subst l. cbn [map concat List.app] in HD. subst ch.
    destruct (wf_ctl client ng ty km data (control_ty_ok _ V1) HK V2) as (A & B & C).
    assert (Hd : is_data_ty ty = false).
    { destruct (is_data_ty ty) eqn:E; [|reflexivity]. rewrite (data_not_control _ E) in V1. discriminate V1. }
    rewrite Hd, (events_ctl ty km data (control_is_control _ V1)). auto.
Qed.

(* WriteMessage of a message that is not compressed, on a live fault-free connection with no
   writer open.  [direct_ok]: either the fast path is taken, or the message writer is used and
   then the buffer must be non-empty and a control payload must fit in it (otherwise the real
   code refuses a valid control message: the C01 finding). *)
Definition direct_ok (c:wcfg) (s:wst) (ty:N) (data:bytes) : Prop :=
  w_server c && (negb (w_negotiated c) || negb (wcomp s)) = true \/
  (0 < cap c /\ (is_control_ty ty = true -> blen data <= cap c)).

Lemma write_message_plain c ty data ic wc cc s :
  cur s = None -> werr s = None -> fail_at s = None -> Forall len4 (keys s) ->
  w_negotiated c && wcomp s && is_data_ty ty = false ->
  msg_valid ty data -> blen data < 2^62 -> direct_ok c s ty data ->
  exists s' l km ch,
    write_message c ty data ic wc cc s = (None, s') /\
    wire s' = wire s ++ encode_frames (msgfs ty 0 l km ch) /\
    concat (map snd l) ++ ch = data /\
    (w_server c = true -> l = [] /\ km = None) /\
    (w_server c && (negb (w_negotiated c) || negb (wcomp s)) = false ->
       Forall (fun x : kc => blen (snd x) = cap c) l /\ blen ch <= cap c /\ (data <> [] -> ch <> [])) /\
    Forall wf_frame (msgfs ty 0 l km ch) /\
    (forall ng, wf_wire (negb (w_server c)) ng (tag (msgfs ty 0 l km ch)) = true) /\
    open_after false (tag (msgfs ty 0 l km ch)) = false /\
    events_of (msgfs ty 0 l km ch) = [expected_event ty data] /\
    werr s' = (if ty =? c_CloseMessage then Some WCloseSent else None) /\
    fail_at s' = None /\ cur s' = None /\ Forall len4 (keys s').
Proof.
  intros HC HW HF HK Hnc HV HB HD.
  destruct (w_server c && (negb (w_negotiated c) || negb (wcomp s))) eqn:Efast.
  - destruct (write_message_fast c ty data ic wc cc s HC HW HF Efast)
      as [(V & E)|[(V1 & V2 & _)|(_ & s' & E & W & We & Fa & Cu & Ke & _)]].
    + exfalso. destruct HV as [V'|[V' _]]; rewrite V' in V; cbn [negb andb] in V;
        rewrite ?andb_false_r in V; discriminate V.
    + exfalso. destruct HV as [V'|[_ V']]; [rewrite (data_not_control _ V') in V1; discriminate V1|lia].
    + assert (Hsrv : w_server c = true) by (destruct (w_server c); [reflexivity|discriminate Efast]).
      exists s', [], None, data. split; [exact E|].
      assert (M : forall ng, Forall wf_frame (msgfs ty 0 [] None data) /\
                wf_wire (negb (w_server c)) ng (tag (msgfs ty 0 [] None data)) = true /\
                open_after false (tag (msgfs ty 0 [] None data)) = false /\
                events_of (msgfs ty 0 [] None data) = [expected_event ty data]).
      { intros ng. apply (msgfs_message_ok (negb (w_server c)) ng ty [] None data data HV HB eq_refl).
        - constructor.
        - rewrite Hsrv. reflexivity.
        - intros X; contradiction. }
      destruct (M true) as (A & _ & C & D). assert (B := fun ng => proj1 (proj2 (M ng))).
      split. { rewrite W. unfold msgfs. cbn [ofr after List.app encode_frames flat_map]. rewrite app_nil_r. reflexivity. }
      split; [reflexivity|]. split; [auto|]. split; [intros X; discriminate X|].
      rewrite Ke. auto 10.
  - destruct HD as [X|[Hcap HCtl]]; [rewrite Efast in X; discriminate X|].
    destruct (write_message_slow c ty data ic wc cc s HC HW HF HK Efast Hnc HV Hcap HCtl)
      as (s' & l & km & ch & E & W & Dc & Lk & Kk & Cb & Ne & Nc & We & Fa & Cu & Ke).
    exists s', l, km, ch. split; [exact E|]. split; [exact W|]. split; [exact Dc|].
    assert (M : forall ng, Forall wf_frame (msgfs ty 0 l km ch) /\
              wf_wire (negb (w_server c)) ng (tag (msgfs ty 0 l km ch)) = true /\
              open_after false (tag (msgfs ty 0 l km ch)) = false /\
              events_of (msgfs ty 0 l km ch) = [expected_event ty data]).
    { intros ng. apply (msgfs_message_ok (negb (w_server c)) ng ty l km ch data HV HB Dc).
      - eapply Forall_impl; [|exact Lk]. cbv beta. tauto.
      - exact Kk.
      - exact Nc. }
    destruct (M true) as (A & _ & C & D). assert (B := fun ng => proj1 (proj2 (M ng))).
    split.
    { intros Hsrv. rewrite Hsrv in *. cbn [negb kc_ok] in Kk. split; [|exact Kk].
      destruct l; [reflexivity|]. specialize (Nc ltac:(discriminate)).
      cbn [andb] in Efast. destruct (w_negotiated c), (wcomp s); cbn in Efast; try discriminate.
      cbn [andb] in Hnc. destruct HV as [V|[V _]]; congruence. }
    split.
    { intros _. split; [|auto]. eapply Forall_impl; [|exact Lk]. cbv beta. tauto. }
    auto 10.
Qed.

(* ------------------------------------------------------------------------------------------ *)
(* 2. The rendered frame of an uncompressed key                                               *)
(* ------------------------------------------------------------------------------------------ *)
Theorem rendered_frame_wellformed k ty data keys wc cc :
  pk_compress k && is_data_ty ty = false -> msg_valid ty data -> blen data < 2^62 -> Forall len4 keys ->
  exists pfs,
    render k ty data keys wc cc = (None, encode_frames pfs) /\
    Forall wf_frame pfs /\
    (forall ng, wf_wire (negb (pk_server k)) ng (tag pfs) = true) /\
    open_after false (tag pfs) = false /\
    events_of pfs = [expected_event ty data] /\
    (* server key: ONE unmasked frame whatever the size *)
    (pk_server k = true -> pfs = [mkf true ty 0 None data]) /\
    (* client key: the message writer cuts at 4096 bytes; every frame masked with a 4-byte key *)
    (pk_server k = false ->
       exists l km ch, pfs = msgfs ty 0 l km ch /\ concat (map snd l) ++ ch = data /\
         Forall (fun x : kc => blen (snd x) = 4096) l /\ blen ch <= 4096 /\ (data <> [] -> ch <> [])).
Proof.
  intros HCm HV HB HK. rewrite render_eq.
  destruct (rs0_proj k keys) as (R1 & R2 & R3 & R4 & R5 & R6).
  destruct (write_message_plain (pcfg k) ty data [] wc cc (rs0 k keys) R1 R2 R3)
    as (s' & l & km & ch & E & W & Dc & Sv & Sl & A & B & C & D & _).
  - rewrite R4. exact HK.
  - cbn [pcfg w_negotiated]. rewrite R6, andb_true_r. exact HCm.
  - exact HV.
  - exact HB.
  - right. rewrite cap_pcfg. split; [lia|]. intros X. destruct HV as [V|[_ V]]; [|lia].
    rewrite (data_not_control _ V) in X. discriminate X.
  - exists (msgfs ty 0 l km ch). rewrite E. cbn [fst snd]. rewrite W, R5. cbn [List.app].
    split; [reflexivity|]. split; [exact A|]. split; [exact B|]. split; [exact C|]. split; [exact D|].
    cbn [pcfg w_server w_negotiated] in Sv, Sl. rewrite cap_pcfg in Sl. split.
    + intros Hs. destruct (Sv Hs) as [-> ->]. cbn [map concat List.app] in Dc. subst ch. reflexivity.
    + intros Hs. exists l, km, ch. split; [reflexivity|]. split; [exact Dc|]. apply Sl.
      rewrite Hs. reflexivity.
Qed.

(* WriterWireP's hypothesis [prepared_ok] holds for the frame rendered for the key that
   WritePreparedMessage asks for, whenever that key does not ask for compression *)
Theorem prepared_ok_rendered c s ty data keys wc cc :
  w_negotiated c && wcomp s && is_data_ty ty = false ->
  msg_valid ty data -> blen data < 2^62 -> Forall len4 keys ->
  prepared_ok c (snd (render (key_for c s ty) ty data keys wc cc)).
Proof.
  intros HCm HV HB HK.
  assert (HCm' : pk_compress (key_for c s ty) && is_data_ty ty = false).
  { unfold key_for. cbn [pk_compress]. rewrite HCm. reflexivity. }
  destruct (rendered_frame_wellformed (key_for c s ty) ty data keys wc cc HCm' HV HB HK)
    as (pfs & E & A & B & C & _).
  exists pfs. rewrite E. cbn [snd]. split; [reflexivity|]. split; [exact A|]. split; [apply B|exact C].
Qed.

(* ------------------------------------------------------------------------------------------ *)
(* 4. The cache shared by every connection the message is sent to                             *)
(* ------------------------------------------------------------------------------------------ *)
Lemma pkey_eqb_eq a b : pkey_eqb a b = true <-> a = b.
Proof.
  unfold pkey_eqb. split.
  - intros H. apply andb_true_iff in H. destruct H as [H H3]. apply andb_true_iff in H. destruct H as [H1 H2].
    apply Bool.eqb_prop in H1. apply Bool.eqb_prop in H2. apply Z.eqb_eq in H3.
    destruct a, b. cbn in *. congruence.
  - intros ->. rewrite !Bool.eqb_reflx, Z.eqb_refl. reflexivity.
Qed.

Lemma pkey_eqb_refl a : pkey_eqb a a = true.
Proof. apply pkey_eqb_eq. reflexivity. Qed.

Lemma pkey_eqb_sym a b : pkey_eqb a b = pkey_eqb b a.
Proof.
  destruct (pkey_eqb a b) eqn:E1, (pkey_eqb b a) eqn:E2; try reflexivity.
  - apply pkey_eqb_eq in E1. subst. rewrite pkey_eqb_refl in E2. discriminate.
  - apply pkey_eqb_eq in E2. subst. rewrite pkey_eqb_refl in E1. discriminate.
Qed.

(* every cached frame is the rendering of the creation-time (type, payload) for its key, for
   some oracles (those of the send that rendered it) *)
Definition cache_ok (p:prepared) : Prop :=
  forall k fr, In (k, fr) (p_cache p) ->
    exists keys wc cc, fr = snd (render k (p_ty p) (p_data p) keys wc cc).

Lemma lookup_in k p fr : lookup k p = Some fr -> In (k, fr) (p_cache p).
Proof.
  unfold lookup. destruct (find (fun x => pkey_eqb (fst x) k) (p_cache p)) as [[k' fr']|] eqn:E; [|discriminate].
  intros H. inversion H; subst. apply find_some in E. destruct E as [E1 E2]. cbn [fst] in E2.
  apply pkey_eqb_eq in E2. subst. exact E1.
Qed.

Lemma find_snoc {A} (f:A -> bool) l x :
  find f (l ++ [x]) = match find f l with Some y => Some y | None => if f x then Some x else None end.
Proof. induction l as [|a l IH]; cbn [List.app find]; [reflexivity|]. destruct (f a); [reflexivity|exact IH]. Qed.

(* what a send returns *)
Lemma frame_for_spec k p keys wc cc :
  fst (frame_for k p keys wc cc) =
  match lookup k p with Some fr => fr | None => snd (render k (p_ty p) (p_data p) keys wc cc) end.
Proof.
  unfold frame_for. destruct (lookup k p); [reflexivity|].
  destruct (render k (p_ty p) (p_data p) keys wc cc); reflexivity.
Qed.

(* the payload is the one given at creation: a send never touches type or payload *)
Theorem frame_for_keeps_payload k p keys wc cc :
  p_ty (snd (frame_for k p keys wc cc)) = p_ty p /\ p_data (snd (frame_for k p keys wc cc)) = p_data p.
Proof.
  unfold frame_for. destruct (lookup k p); [split; reflexivity|].
  destruct (render k (p_ty p) (p_data p) keys wc cc); split; reflexivity.
Qed.

Theorem new_prepared_payload ty data :
  p_ty (snd (new_prepared ty data)) = ty /\ p_data (snd (new_prepared ty data)) = data.
Proof. rewrite new_prepared_eq. split; reflexivity. Qed.

(* the cache after a send *)
Lemma lookup_frame_for k p keys wc cc k' :
  lookup k' (snd (frame_for k p keys wc cc)) =
  if pkey_eqb k k' then Some (fst (frame_for k p keys wc cc)) else lookup k' p.
Proof.
  rewrite frame_for_spec. unfold frame_for. destruct (lookup k p) as [fr|] eqn:EL.
  - cbn [snd]. destruct (pkey_eqb k k') eqn:E; [|reflexivity]. apply pkey_eqb_eq in E. subst k'. exact EL.
  - destruct (render k (p_ty p) (p_data p) keys wc cc) as [e fr]. cbn [snd].
    unfold lookup in *. cbn [p_cache]. rewrite find_snoc. cbn [fst].
    destruct (pkey_eqb k k') eqn:E.
    + apply pkey_eqb_eq in E. subst k'.
      destruct (find (fun x : pkey * bytes => pkey_eqb (fst x) k) (p_cache p)) as [[a b]|]; [discriminate EL|reflexivity].
    + destruct (find (fun x : pkey * bytes => pkey_eqb (fst x) k') (p_cache p)) as [[a b]|]; reflexivity.
Qed.

Theorem new_prepared_cache_ok ty data : cache_ok (snd (new_prepared ty data)).
Proof.
  rewrite new_prepared_eq. intros k fr H. cbn [snd p_cache p_ty p_data] in *.
  destruct H as [H|[]]. inversion H; subst. exists [], [], [].
  rewrite (render_server_plain k_plain ty data [] [] []) by (split; reflexivity). reflexivity.
Qed.

Theorem frame_for_cache_ok k p keys wc cc : cache_ok p -> cache_ok (snd (frame_for k p keys wc cc)).
Proof.
  intros H. unfold frame_for. destruct (lookup k p); [exact H|].
  destruct (render k (p_ty p) (p_data p) keys wc cc) as [e fr] eqn:E. cbn [snd].
  intros k' fr' Hin. cbn [p_cache p_ty p_data] in *. apply in_app_or in Hin. destruct Hin as [Hin|[Hin|[]]].
  - apply H. exact Hin.
  - inversion Hin; subst. exists keys, wc, cc. rewrite E. reflexivity.
Qed.

(* idempotence: a second send with the same key returns the cached frame unchanged and leaves
   the cache alone, whatever oracles it is given *)
Theorem frame_for_idempotent k p keys wc cc keys' wc' cc' :
  let r := frame_for k p keys wc cc in
  lookup k (snd r) = Some (fst r) /\ frame_for k (snd r) keys' wc' cc' = (fst r, snd r).
Proof.
  cbv zeta. assert (L : lookup k (snd (frame_for k p keys wc cc)) = Some (fst (frame_for k p keys wc cc))).
  { rewrite lookup_frame_for, pkey_eqb_refl. reflexivity. }
  split; [exact L|]. unfold frame_for at 1. rewrite L. reflexivity.
Qed.

(* commutation: sends for two different keys do not influence each other *)
Theorem frame_for_commute k1 k2 p keys1 wc1 cc1 keys2 wc2 cc2 : k1 <> k2 ->
  let p1 := snd (frame_for k1 p keys1 wc1 cc1) in
  let p2 := snd (frame_for k2 p keys2 wc2 cc2) in
  fst (frame_for k2 p1 keys2 wc2 cc2) = fst (frame_for k2 p keys2 wc2 cc2) /\
  fst (frame_for k1 p2 keys1 wc1 cc1) = fst (frame_for k1 p keys1 wc1 cc1) /\
  (forall k, lookup k (snd (frame_for k2 p1 keys2 wc2 cc2)) = lookup k (snd (frame_for k1 p2 keys1 wc1 cc1))).
Proof.
  intros Hne. cbv zeta.
  assert (N12 : pkey_eqb k1 k2 = false).
  { destruct (pkey_eqb k1 k2) eqn:E; [|reflexivity]. apply pkey_eqb_eq in E. contradiction. }
  assert (N21 : pkey_eqb k2 k1 = false) by (rewrite pkey_eqb_sym; exact N12).
  destruct (frame_for_keeps_payload k1 p keys1 wc1 cc1) as [T1 D1].
  destruct (frame_for_keeps_payload k2 p keys2 wc2 cc2) as [T2 D2].
  assert (A : fst (frame_for k2 (snd (frame_for k1 p keys1 wc1 cc1)) keys2 wc2 cc2) = fst (frame_for k2 p keys2 wc2 cc2)).
  { rewrite !frame_for_spec, lookup_frame_for, N12, T1, D1. reflexivity. }
  assert (B : fst (frame_for k1 (snd (frame_for k2 p keys2 wc2 cc2)) keys1 wc1 cc1) = fst (frame_for k1 p keys1 wc1 cc1)).
  { rewrite !frame_for_spec, lookup_frame_for, N21, T2, D2. reflexivity. }
  split; [exact A|]. split; [exact B|].
  intros k. rewrite !lookup_frame_for, A, B.
  destruct (pkey_eqb k2 k) eqn:E2, (pkey_eqb k1 k) eqn:E1; try reflexivity.
  apply pkey_eqb_eq in E1. apply pkey_eqb_eq in E2. congruence.
Qed.

(* any sequence of sends: the frame a send gets is the one already cached at the start, or else
   the rendering with the oracles of the FIRST send for that key -- no other send matters *)
Definition oracles := (list bytes * list bytes * list bytes)%type.
Fixpoint send_all (p:prepared) (l:list (pkey * oracles)) : list bytes * prepared :=
  match l with
  | [] => ([], p)
  | (k, (ks, wc, cc)) :: r =>
      let '(fr, p1) := frame_for k p ks wc cc in
      let '(frs, p2) := send_all p1 r in (fr :: frs, p2)
  end.

Definition want (p:prepared) (l:list (pkey * oracles)) (k:pkey) : bytes :=
  match lookup k p with
  | Some fr => fr
  | None => match find (fun x => pkey_eqb (fst x) k) l with
            | Some (_, (ks, wc, cc)) => snd (render k (p_ty p) (p_data p) ks wc cc)
            | None => []
            end
  end.

Theorem send_all_frames l : forall p, fst (send_all p l) = map (fun x => want p l (fst x)) l.
Proof.
  induction l as [|[k [[ks wc] cc]] r IH]; intros p; [reflexivity|].
  cbn [send_all]. destruct (frame_for k p ks wc cc) as [fr p1] eqn:E.
  specialize (IH p1). destruct (send_all p1 r) as [frs p2]. cbn [fst] in *. cbn [map fst].
  assert (Efr : fr = fst (frame_for k p ks wc cc)) by (rewrite E; reflexivity).
  assert (Ep1 : p1 = snd (frame_for k p ks wc cc)) by (rewrite E; reflexivity).
  f_equal.
  - rewrite Efr, frame_for_spec. unfold want. destruct (lookup k p); [reflexivity|].
    cbn [find fst]. rewrite pkey_eqb_refl. reflexivity.
  - rewrite IH. apply map_ext. intros [k' o']. cbn [fst]. unfold want.
    destruct (frame_for_keeps_payload k p ks wc cc) as [T D].
    rewrite Ep1, lookup_frame_for, T, D. cbn [find fst].
    destruct (pkey_eqb k k') eqn:EK.
    + apply pkey_eqb_eq in EK. subst k'. rewrite frame_for_spec. destruct (lookup k p); reflexivity.
    + reflexivity.
Qed.

Corollary send_all_payload l : forall p,
  p_ty (snd (send_all p l)) = p_ty p /\ p_data (snd (send_all p l)) = p_data p /\
  (cache_ok p -> cache_ok (snd (send_all p l))).
Proof.
  induction l as [|[k [[ks wc] cc]] r IH]; intros p; [cbn; auto|].
  cbn [send_all]. destruct (frame_for k p ks wc cc) as [fr p1] eqn:E.
  specialize (IH p1). destruct (send_all p1 r) as [frs p2]. cbn [snd] in *.
  destruct (frame_for_keeps_payload k p ks wc cc) as [T D]. rewrite E in T, D. cbn [snd] in T, D.
  destruct IH as (I1 & I2 & I3). split; [congruence|]. split; [congruence|].
  intros H. apply I3. pose proof (frame_for_cache_ok k p ks wc cc H) as X. rewrite E in X. exact X.
Qed.

(* for keys that are server-side and uncompressed the oracles do not matter either: whoever
   sends first, in whatever order, every such connection gets the same canonical frame *)
Theorem frame_for_server_plain k p keys wc cc : cache_ok p -> server_plain k ->
  fst (frame_for k p keys wc cc) = snd (plain_result (p_ty p) (p_data p)).
Proof.
  intros H HS. rewrite frame_for_spec. destruct (lookup k p) as [fr|] eqn:E.
  - apply lookup_in in E. destruct (H k fr E) as (ks & w & c0 & ->).
    rewrite render_server_plain by exact HS. reflexivity.
  - rewrite render_server_plain by exact HS. reflexivity.
Qed.

(* a prepared message straight from NewPreparedMessage: the first send for any key gets the
   rendering of the creation-time payload for that key *)
Theorem frame_for_fresh k ty data keys wc cc :
  fst (frame_for k (snd (new_prepared ty data)) keys wc cc) = snd (render k ty data keys wc cc).
Proof.
  rewrite frame_for_spec. destruct (new_prepared_payload ty data) as [T D]. rewrite T, D.
  destruct (lookup k (snd (new_prepared ty data))) as [fr|] eqn:E; [|reflexivity].
  apply lookup_in in E. rewrite new_prepared_eq in E. cbn [snd p_cache] in E.
  destruct E as [E|[]]. inversion E; subst.
  rewrite (render_server_plain k_plain ty data keys wc cc) by (split; reflexivity). reflexivity.
Qed.

(* ------------------------------------------------------------------------------------------ *)
(* 5. WritePreparedMessage on a connection                                                    *)
(* ------------------------------------------------------------------------------------------ *)
(* the prepared message cstep works on, and what frame_for makes of it *)
Definition pm_of (ca:cache) (p:psend) : prepared :=
  match cache_get (ps_id p) ca with Some pm => pm | None => snd (new_prepared (ps_ty p) (ps_data p)) end.
Definition send_of (c:wcfg) (s:wst) (ca:cache) (p:psend) : bytes * prepared :=
  frame_for (key_for c s (ps_ty p)) (pm_of ca p) (ps_keys p) (ps_wc p) (ps_cc p).

(* on a live fault-free connection with no writer open, the send logs exactly one
   SetWriteDeadline and one Write of the frame, and succeeds *)
Lemma cstep_prepared_nf c s ca p :
  cur s = None -> werr s = None -> fail_at s = None ->
  exists s1, cstep c (s, ca) (CPrepared p) =
               (None, (s1, cache_put (ps_id p) (snd (send_of c s ca p)) ca)) /\
    evs s1 = evs s ++ [TSetDL (deadline s); TWrite (fst (send_of c s ca p))] /\
    wire s1 = wire s ++ fst (send_of c s ca p) /\
    werr s1 = (if ps_ty p =? c_CloseMessage then Some WCloseSent else None) /\
    fail_at s1 = None /\ cur s1 = None /\ keys s1 = keys s /\ deadline s1 = deadline s.
Proof.
  intros HC HW HF. unfold send_of, pm_of. cbn [cstep]. unfold close_current. rewrite HC. cbv zeta.
  destruct (frame_for (key_for c s (ps_ty p))
              match cache_get (ps_id p) ca with Some pm => pm | None => snd (new_prepared (ps_ty p) (ps_data p)) end
              (ps_keys p) (ps_wc p) (ps_cc p)) as [fr pm'].
  cbn [wstep fst snd].
  destruct (conn_write_nf (ps_ty p) (deadline s) false (fun _ => fr) [] s HW HF) as (s1 & E & C1 & C2 & C3 & C4 & C5).
  rewrite E. exists s1. split; [reflexivity|]. cbn [List.app] in C5.
  split; [rewrite (evs_ext s s1 [TWrite fr; TSetDL (deadline s)] C5); reflexivity|].
  split.
  { rewrite (wire_ext s s1 [TWrite fr; TSetDL (deadline s)] C5). cbn [rev List.app flat_map pay].
    rewrite app_nil_r. reflexivity. }
  rewrite (core_cur _ _ C1), (core_deadline _ _ C1). auto 10.
Qed.

Lemma key_for_plain c s ty :
  w_negotiated c && wcomp s && is_data_ty ty = false ->
  pk_compress (key_for c s ty) = false /\ pk_server (key_for c s ty) = w_server c.
Proof. intros H. unfold key_for. cbn [pk_compress pk_server]. auto. Qed.

(* THE HEADLINE: a prepared message sent for the first time on a connection [c] in state [s]
   (no writer open, no sticky error, no fault), for a key that does not ask for compression.
   The transport log grows by exactly SetWriteDeadline(c.writeDeadline) and ONE Write(fr);
   [fr] and the bytes [W] that WriteMessage(ty, data) would have put on the wire from the same
   state both parse (Spec decoder) into well-formed, complete frame sequences for this
   connection's role, carrying the same single event: (type, payload given at creation).
   On a server connection the bytes are equal: header ++ payload, one frame. *)
Theorem prepared_send_equals_write_message c s ca p ic wc cc :
  cur s = None -> werr s = None -> fail_at s = None ->
  cache_get (ps_id p) ca = None ->
  w_negotiated c && wcomp s && is_data_ty (ps_ty p) = false ->
  msg_valid (ps_ty p) (ps_data p) -> blen (ps_data p) < 2^62 ->
  Forall len4 (keys s) -> Forall len4 (ps_keys p) ->
  direct_ok c s (ps_ty p) (ps_data p) ->
  exists fr s1 ca1 s2 W pfs dfs,
    cstep c (s, ca) (CPrepared p) = (None, (s1, ca1)) /\
    evs s1 = evs s ++ [TSetDL (deadline s); TWrite fr] /\
    wstep c s (WMessage (ps_ty p) (ps_data p) ic wc cc) = (None, s2) /\
    wire s2 = wire s ++ W /\
    parse_frames fr = (tag pfs, TEnd) /\ parse_frames W = (tag dfs, TEnd) /\
    wf_wire (negb (w_server c)) (w_negotiated c) (tag pfs) = true /\
    wf_wire (negb (w_server c)) (w_negotiated c) (tag dfs) = true /\
    open_after false (tag pfs) = false /\ open_after false (tag dfs) = false /\
    events_of pfs = [expected_event (ps_ty p) (ps_data p)] /\
    events_of dfs = [expected_event (ps_ty p) (ps_data p)] /\
    werr s1 = werr s2 /\
    (w_server c = true ->
       W = fr /\ fr = frame_header (ps_ty p + c_finalBit) 0 (blen (ps_data p)) ++ ps_data p) /\
    (w_server c = false ->
       (exists l km ch, pfs = msgfs (ps_ty p) 0 l km ch /\ Forall (fun x : kc => blen (snd x) = 4096) l /\ blen ch <= 4096) /\
       (exists l km ch, dfs = msgfs (ps_ty p) 0 l km ch /\ Forall (fun x : kc => blen (snd x) = cap c) l /\ blen ch <= cap c)).
Proof.
  intros HC HW HF Hfresh Hnc HV HB HK HPK HD.
  destruct (cstep_prepared_nf c s ca p HC HW HF) as (s1 & E1 & L1 & _ & We1 & _).
  destruct (key_for_plain c s (ps_ty p) Hnc) as [Kc Ks].
  assert (Hfr : fst (send_of c s ca p) =
                snd (render (key_for c s (ps_ty p)) (ps_ty p) (ps_data p) (ps_keys p) (ps_wc p) (ps_cc p))).
  { unfold send_of, pm_of. rewrite Hfresh. apply frame_for_fresh. }
  assert (Kc' : pk_compress (key_for c s (ps_ty p)) && is_data_ty (ps_ty p) = false) by (rewrite Kc; reflexivity).
  destruct (rendered_frame_wellformed (key_for c s (ps_ty p)) (ps_ty p) (ps_data p) (ps_keys p) (ps_wc p) (ps_cc p)
              Kc' HV HB HPK) as (pfs & R & P1 & P2 & P3 & P4 & P5 & P6).
  rewrite R in Hfr. cbn [snd] in Hfr. rewrite Ks in P2, P5, P6.
  destruct (write_message_plain c (ps_ty p) (ps_data p) ic wc cc s HC HW HF HK Hnc HV HB HD)
    as (s2 & l & km & ch & E2 & W2 & Dc & Sv & Sl & D1 & D2 & D3 & D4 & We2 & _).
  exists (fst (send_of c s ca p)), s1, (cache_put (ps_id p) (snd (send_of c s ca p)) ca), s2,
         (encode_frames (msgfs (ps_ty p) 0 l km ch)), pfs, (msgfs (ps_ty p) 0 l km ch).
  split; [exact E1|]. split; [exact L1|]. split; [exact E2|]. split; [exact W2|].
  split; [rewrite Hfr; apply parse_frames_encode; exact P1|].
  split; [apply parse_frames_encode; exact D1|].
  split; [apply P2|]. split; [apply D2|]. split; [exact P3|]. split; [exact D3|].
  split; [exact P4|]. split; [exact D4|]. split; [congruence|].
  split.
  - intros Hs. destruct (Sv Hs) as [-> ->]. cbn [map concat List.app] in Dc. subst ch.
    rewrite Hfr, (P5 Hs). unfold msgfs. cbn [ofr after List.app encode_frames flat_map].
    rewrite app_nil_r, server_frame_bytes. split; reflexivity.
  - intros Hs. split.
    + destruct (P6 Hs) as (l' & km' & ch' & X1 & _ & X3 & X4 & _). exists l', km', ch'. auto.
    + exists l, km, ch. split; [reflexivity|]. destruct Sl as (X1 & X2 & _); [rewrite Hs; reflexivity|]. auto.
Qed.

(* The shared cache, at the level of the case format: every prepared message in the cache keeps
   the invariant [cache_ok] and its creation-time (type, payload) through any step of any
   connection, in any order. *)
Definition ca_ok (ca:cache) : Prop := forall id pm, cache_get id ca = Some pm -> cache_ok pm.

Lemma find_filter_other (l:cache) id id' : id' <> id ->
  find (fun x => Nat.eqb (fst x) id') (filter (fun x => negb (Nat.eqb (fst x) id)) l) =
  find (fun x => Nat.eqb (fst x) id') l.
Proof.
  intros Hne. induction l as [|[i pm] l IH]; [reflexivity|]. cbn [filter find fst].
  destruct (Nat.eqb i id) eqn:E1; cbn [negb].
  - apply Nat.eqb_eq in E1. subst i. replace (Nat.eqb id id') with false; [exact IH|].
    symmetry. apply Nat.eqb_neq. congruence.
  - cbn [find fst]. destruct (Nat.eqb i id'); [reflexivity|exact IH].
Qed.

Lemma cache_get_put id pm ca id' :
  cache_get id' (cache_put id pm ca) = if Nat.eqb id id' then Some pm else cache_get id' ca.
Proof.
  unfold cache_get, cache_put. cbn [find fst]. destruct (Nat.eqb id id') eqn:E; [reflexivity|].
  apply Nat.eqb_neq in E. rewrite find_filter_other by congruence. reflexivity.
Qed.

Lemma cstep_cache c s ca o :
  snd (snd (cstep c (s, ca) o)) =
  match o with
  | COp _ => ca
  | CPrepared p => cache_put (ps_id p) (snd (send_of c (close_current c (ps_ic p) s) ca p)) ca
  end.
Proof.
  destruct o as [w|p]; cbn [cstep].
  - destruct (wstep c s w); reflexivity.
  - unfold send_of, pm_of. cbv zeta.
    destruct (frame_for _ _ _ _ _) as [fr pm']. destruct (wstep c _ _) as [e s']. reflexivity.
Qed.

Theorem cstep_keeps_cache_ok c s ca o : ca_ok ca -> ca_ok (snd (snd (cstep c (s, ca) o))).
Proof.
  intros H. rewrite cstep_cache. destruct o as [w|p]; [exact H|].
  intros id pm. rewrite cache_get_put. destruct (Nat.eqb (ps_id p) id) eqn:E; [|apply H].
  intros X. inversion X; subst. unfold send_of. apply frame_for_cache_ok.
  unfold pm_of. destruct (cache_get (ps_id p) ca) as [pm0|] eqn:G; [apply (H _ _ G)|apply new_prepared_cache_ok].
Qed.

Theorem cstep_keeps_payload c s ca o id pm :
  cache_get id ca = Some pm ->
  exists pm', cache_get id (snd (snd (cstep c (s, ca) o))) = Some pm' /\
              p_ty pm' = p_ty pm /\ p_data pm' = p_data pm.
Proof.
  intros G. rewrite cstep_cache. destruct o as [w|p]; [exists pm; auto|].
  rewrite cache_get_put. destruct (Nat.eqb (ps_id p) id) eqn:E; [|exists pm; auto].
  apply Nat.eqb_eq in E. subst id. eexists. split; [reflexivity|].
  unfold send_of. destruct (frame_for_keeps_payload (key_for c (close_current c (ps_ic p) s) (ps_ty p)) (pm_of ca p)
                             (ps_keys p) (ps_wc p) (ps_cc p)) as [T D].
  rewrite T, D. unfold pm_of. rewrite G. auto.
Qed.

Lemma crun_cache_ok c ops : forall st, ca_ok (snd st) -> ca_ok (snd (snd (crun c st ops))).
Proof.
  induction ops as [|o r IH]; intros [s ca] H; [exact H|]. cbn [crun].
  pose proof (cstep_keeps_cache_ok c s ca o H) as X. destruct (cstep c (s, ca) o) as [e st1].
  specialize (IH st1 X). destruct (crun c st1 r) as [es st2]. exact IH.
Qed.

(* a server connection sending an ALREADY SHARED prepared message (whoever rendered what before,
   for whatever keys, with whatever oracles): the canonical single frame again *)
Theorem prepared_send_server_shared c s ca p pm :
  w_server c = true -> cur s = None -> werr s = None -> fail_at s = None ->
  cache_get (ps_id p) ca = Some pm -> cache_ok pm -> p_ty pm = ps_ty p -> p_data pm = ps_data p ->
  w_negotiated c && wcomp s && is_data_ty (ps_ty p) = false ->
  msg_valid (ps_ty p) (ps_data p) ->
  exists s1 ca1,
    cstep c (s, ca) (CPrepared p) = (None, (s1, ca1)) /\
    evs s1 = evs s ++ [TSetDL (deadline s);
                       TWrite (frame_header (ps_ty p + c_finalBit) 0 (blen (ps_data p)) ++ ps_data p)].
Proof.
  intros Hs HC HW HF G Hok T D Hnc HV.
  destruct (cstep_prepared_nf c s ca p HC HW HF) as (s1 & E1 & L1 & _).
  destruct (key_for_plain c s (ps_ty p) Hnc) as [Kc Ks].
  assert (Hfr : fst (send_of c s ca p) = frame_header (ps_ty p + c_finalBit) 0 (blen (ps_data p)) ++ ps_data p).
  { unfold send_of, pm_of. rewrite G.
    rewrite frame_for_server_plain; [|exact Hok|split; congruence].
    rewrite T, D. unfold plain_result.
    destruct HV as [V|[V1 V2]].
    - rewrite V, (data_not_control _ V). cbn [negb andb]. rewrite ?andb_false_r. reflexivity.
    - rewrite V1. cbn [negb andb]. replace (125 <? blen (ps_data p)) with false by lia. reflexivity. }
  rewrite Hfr in L1. eauto.
Qed.

(* ------------------------------------------------------------------------------------------ *)
(* 4'/5'. Shared by many connections, in any order: the semantic cache invariant              *)
(* ------------------------------------------------------------------------------------------ *)
(* [fr] is what a connection with key [k] must put on the wire for the message (ty, data):
   complete, well-formed for the key's role, decoding to exactly that one event *)
Definition frame_good (k:pkey) (ty:N) (data fr:bytes) : Prop :=
  exists pfs, fr = encode_frames pfs /\ Forall wf_frame pfs /\
    (forall ng, wf_wire (negb (pk_server k)) ng (tag pfs) = true) /\
    open_after false (tag pfs) = false /\
    events_of pfs = [expected_event ty data].

Lemma frame_good_parse k ty data fr : frame_good k ty data fr ->
  exists pfs, parse_frames fr = (tag pfs, TEnd) /\ events_of pfs = [expected_event ty data] /\
              forall ng, wf_wire (negb (pk_server k)) ng (tag pfs) = true.
Proof.
  intros (pfs & -> & A & B & C & D). exists pfs. split; [apply parse_frames_encode; exact A|]. auto.
Qed.

Definition cache_good (p:prepared) : Prop :=
  forall k fr, In (k, fr) (p_cache p) -> pk_compress k = false -> frame_good k (p_ty p) (p_data p) fr.

Definition payload_ok (ty:N) (data:bytes) : Prop := msg_valid ty data /\ blen data < 2^62.

Lemma render_good k ty data keys wc cc :
  pk_compress k = false -> payload_ok ty data -> Forall len4 keys ->
  frame_good k ty data (snd (render k ty data keys wc cc)).
Proof.
  intros HCm [HV HB] HK.
  assert (HCm' : pk_compress k && is_data_ty ty = false) by (rewrite HCm; reflexivity).
  destruct (rendered_frame_wellformed k ty data keys wc cc HCm' HV HB HK) as (pfs & E & A & B & C & D & _).
  exists pfs. rewrite E. cbn [snd]. auto.
Qed.

Theorem new_prepared_cache_good ty data : payload_ok ty data -> cache_good (snd (new_prepared ty data)).
Proof.
  intros HP k fr Hin HCm. destruct (new_prepared_payload ty data) as [T D]. rewrite T, D.
  rewrite new_prepared_eq in Hin. cbn [snd p_cache] in Hin. destruct Hin as [Hin|[]]. inversion Hin; subst.
  rewrite <- (render_server_plain k_plain ty data [] [] []) by (split; reflexivity).
  apply render_good; [reflexivity|exact HP|constructor].
Qed.

Theorem frame_for_good k p keys wc cc :
  cache_good p -> payload_ok (p_ty p) (p_data p) -> Forall len4 keys ->
  cache_good (snd (frame_for k p keys wc cc)) /\
  (pk_compress k = false -> frame_good k (p_ty p) (p_data p) (fst (frame_for k p keys wc cc))).
Proof.
  intros HG HP HK. split.
  - unfold frame_for. destruct (lookup k p); [exact HG|].
    destruct (render k (p_ty p) (p_data p) keys wc cc) as [e fr] eqn:E. cbn [snd].
    intros k' fr' Hin HCm. cbn [p_cache p_ty p_data] in *. apply in_app_or in Hin. destruct Hin as [Hin|[Hin|[]]].
    + apply HG; assumption.
    + inversion Hin; subst. replace fr' with (snd (render k' (p_ty p) (p_data p) keys wc cc)) by (rewrite E; reflexivity).
      apply render_good; assumption.
  - intros HCm. rewrite frame_for_spec. destruct (lookup k p) as [fr|] eqn:E.
    + apply HG; [apply lookup_in; exact E|exact HCm].
    + apply render_good; assumption.
Qed.

(* the harness convention: a prepared-message id always stands for the same creation payload *)
Definition ca_for (pay:nat -> N * bytes) (ca:cache) : Prop :=
  forall id pm, cache_get id ca = Some pm ->
    p_ty pm = fst (pay id) /\ p_data pm = snd (pay id) /\ cache_good pm.
Definition op_for (pay:nat -> N * bytes) (o:cop) : Prop :=
  match o with
  | COp _ => True
  | CPrepared p => ps_ty p = fst (pay (ps_id p)) /\ ps_data p = snd (pay (ps_id p)) /\
                   payload_ok (ps_ty p) (ps_data p) /\ Forall len4 (ps_keys p)
  end.

Lemma pm_of_for pay ca p : ca_for pay ca -> op_for pay (CPrepared p) ->
  p_ty (pm_of ca p) = ps_ty p /\ p_data (pm_of ca p) = ps_data p /\ cache_good (pm_of ca p).
Proof.
  intros HC (O1 & O2 & O3 & O4). unfold pm_of. destruct (cache_get (ps_id p) ca) as [pm|] eqn:G.
  - destruct (HC _ _ G) as (A & B & C). split; [congruence|]. split; [congruence|exact C].
  - destruct (new_prepared_payload (ps_ty p) (ps_data p)) as [T D]. split; [exact T|]. split; [exact D|].
    apply new_prepared_cache_good. exact O3.
Qed.

(* ANY send of ANY shared prepared message on ANY connection, whatever was sent before on
   whichever connections (the cache [ca] is arbitrary but good): if the key does not ask for
   compression, the frame is the right one for this connection's role and decodes to the
   creation payload; and the cache stays good *)
Theorem cstep_shared pay c s ca o :
  ca_for pay ca -> op_for pay o ->
  ca_for pay (snd (snd (cstep c (s, ca) o))) /\
  match o with
  | COp _ => True
  | CPrepared p =>
      let s0 := close_current c (ps_ic p) s in
      w_negotiated c && wcomp s0 && is_data_ty (ps_ty p) = false ->
      frame_good (key_for c s0 (ps_ty p)) (ps_ty p) (ps_data p) (fst (send_of c s0 ca p)) /\
      prepared_ok c (fst (send_of c s0 ca p))
  end.
Proof.
  intros HC HO. rewrite cstep_cache. destruct o as [w|p]; [split; [exact HC|exact I]|].
  destruct (pm_of_for pay ca p HC HO) as (T & D & G). destruct HO as (O1 & O2 & O3 & O4).
  set (s0 := close_current c (ps_ic p) s).
  assert (HP : payload_ok (p_ty (pm_of ca p)) (p_data (pm_of ca p))) by (rewrite T, D; exact O3).
  destruct (frame_for_good (key_for c s0 (ps_ty p)) (pm_of ca p) (ps_keys p) (ps_wc p) (ps_cc p) G HP O4) as [G1 G2].
  split.
  - intros id pm. rewrite cache_get_put. destruct (Nat.eqb (ps_id p) id) eqn:E; [|apply HC].
    apply Nat.eqb_eq in E. subst id. intros X. inversion X; subst pm. unfold send_of.
    destruct (frame_for_keeps_payload (key_for c s0 (ps_ty p)) (pm_of ca p) (ps_keys p) (ps_wc p) (ps_cc p)) as [T' D'].
    split; [congruence|]. split; [congruence|exact G1].
  - cbv zeta. fold s0. intros Hnc. destruct (key_for_plain c s0 (ps_ty p) Hnc) as [Kc Ks].
    specialize (G2 Kc). rewrite T, D in G2. split; [exact G2|].
    destruct G2 as (pfs & E & A & B & C & _). exists pfs. unfold isclient. rewrite <- Ks. auto.
Qed.

Lemma prep_frame_send_of c s ca p :
  WS.Proofs.WriterWireP.prep_frame c (s, ca) p = fst (send_of c (close_current c (ps_ic p) s) ca p).
Proof. reflexivity. Qed.

(* several connections sharing one cache (Cases/C19.v [prun]).  [prun_all Q] says that [Q]
   holds of every step of the multi-connection run: it follows the recursion of [prun] exactly
   (same selection of connection and state, same threading of the shared cache). *)
Require Import WS.Cases.C19.
Fixpoint prun_all (Q:wcfg -> wst -> cache -> cop -> Prop)
         (cfgs:list wcfg) (sts:list wst) (ca:cache) (ops:list (nat * cop)) : Prop :=
  match ops with
  | [] => True
  | (i, o) :: r =>
      match nth_error cfgs i, nth_error sts i with
      | Some c, Some s =>
          Q c s ca o /\
          prun_all Q cfgs (set_nth i (fst (snd (cstep c (s, ca) o))) sts) (snd (snd (cstep c (s, ca) o))) r
      | _, _ => prun_all Q cfgs sts ca r
      end
  end.

Definition send_good (c:wcfg) (s:wst) (ca:cache) (o:cop) : Prop :=
  match o with
  | COp _ => True
  | CPrepared p =>
      let s0 := close_current c (ps_ic p) s in
      w_negotiated c && wcomp s0 && is_data_ty (ps_ty p) = false ->
      frame_good (key_for c s0 (ps_ty p)) (ps_ty p) (ps_data p) (fst (send_of c s0 ca p)) /\
      prepared_ok c (fst (send_of c s0 ca p))
  end.

Theorem prun_shared pay cfgs ops : forall sts ca,
  ca_for pay ca -> Forall (fun io => op_for pay (snd io)) ops ->
  prun_all send_good cfgs sts ca ops.
Proof.
  induction ops as [|[i o] r IH]; intros sts ca HC HO; cbn [prun_all]; [exact I|].
  inversion HO as [|x y O1 O2]; subst. cbn [snd] in O1.
  destruct (nth_error cfgs i) as [c|]; [|apply IH; assumption].
  destruct (nth_error sts i) as [s|]; [|apply IH; assumption].
  destruct (cstep_shared pay c s ca o HC O1) as [A B]. split; [exact B|].
  apply IH; assumption.
Qed.

(* WriterWireP's [prepared_ok] hypothesis (in [cop_ok] / [cgood]) is discharged for every send
   whose key does not ask for compression *)
Corollary prepared_ok_discharged pay c s ca p :
  ca_for pay ca -> op_for pay (CPrepared p) ->
  w_negotiated c && wcomp (close_current c (ps_ic p) s) && is_data_ty (ps_ty p) = false ->
  prepared_ok c (WS.Proofs.WriterWireP.prep_frame c (s, ca) p).
Proof.
  intros HC HO Hnc. rewrite prep_frame_send_of.
  destruct (cstep_shared pay c s ca (CPrepared p) HC HO) as [_ B]. apply (B Hnc).
Qed.

(* ------------------------------------------------------------------------------------------ *)
(* 2c / 5c. Compressed keys                                                                   *)
(* ------------------------------------------------------------------------------------------ *)
(* The model does not compress: the deflate stream is an oracle ([wc]: what flate.Writer emits
   during Write, [cc]: during Close), so the statement is about the stream [z ++ 00 00 ff ff]
   = concat wc ++ concat cc, under WWFlate's hypothesis [tail_ok cc].  That this stream inflates
   to the creation payload is the flate hypothesis of the development, outside this file. *)
Theorem rendered_frame_compressed k ty data keys wc cc :
  pk_compress k = true -> is_data_ty ty = true -> tail_ok cc ->
  blen (concat wc ++ concat cc) < 2^62 -> Forall len4 keys ->
  exists pfs z f rest,
    render k ty data keys wc cc = (None, encode_frames pfs) /\
    Forall wf_frame pfs /\
    wf_wire (negb (pk_server k)) true (tag pfs) = true /\
    open_after false (tag pfs) = false /\
    events_of pfs = [EMsg ty true z] /\
    z ++ [0;0;255;255] = concat wc ++ concat cc /\
    pfs = f :: rest /\ rsv f = 4 /\ opcode f = ty.
Proof.
  intros HCm Hty Ht HB HK. rewrite render_eq.
  destruct (rs0_proj k keys) as (R1 & R2 & R3 & R4 & R5 & R6).
  destruct (write_message_flate (pcfg k) ty data [] wc cc (rs0 k keys) R1 R2 R3)
    as (s' & l & km & ch & z & E & W & Dc & Z & A & B & C & D & _); try assumption.
  - rewrite cap_pcfg. lia.
  - rewrite E. cbn [fst snd]. rewrite W, R5. cbn [List.app].
    exists (msgfs ty 4 l km ch), z.
    destruct l as [|x l'].
    + exists (mkf true ty 4 km ch), []. auto 10.
    + exists (mkf false ty 4 (fst x) (snd x)), (msgfs 0 0 l' km ch). rewrite msgfs_cons in *. auto 10.
Qed.

(* a first prepared send and a direct WriteMessage on a connection where compression applies,
   fed the same deflate stream (however chunked): same single compressed message on the wire *)
Theorem prepared_send_equals_write_message_compressed c s ca p ic wc' cc' :
  cur s = None -> werr s = None -> fail_at s = None ->
  cache_get (ps_id p) ca = None ->
  w_negotiated c = true -> wcomp s = true -> is_data_ty (ps_ty p) = true ->
  0 < cap c -> Forall len4 (keys s) -> Forall len4 (ps_keys p) ->
  tail_ok (ps_cc p) -> tail_ok cc' ->
  concat (ps_wc p) ++ concat (ps_cc p) = concat wc' ++ concat cc' ->
  blen (concat wc' ++ concat cc') < 2^62 ->
  exists fr s1 ca1 s2 W pfs dfs z,
    cstep c (s, ca) (CPrepared p) = (None, (s1, ca1)) /\
    evs s1 = evs s ++ [TSetDL (deadline s); TWrite fr] /\
    wstep c s (WMessage (ps_ty p) (ps_data p) ic wc' cc') = (None, s2) /\
    wire s2 = wire s ++ W /\
    parse_frames fr = (tag pfs, TEnd) /\ parse_frames W = (tag dfs, TEnd) /\
    wf_wire (negb (w_server c)) true (tag pfs) = true /\
    wf_wire (negb (w_server c)) true (tag dfs) = true /\
    open_after false (tag pfs) = false /\ open_after false (tag dfs) = false /\
    events_of pfs = [EMsg (ps_ty p) true z] /\ events_of dfs = [EMsg (ps_ty p) true z] /\
    z ++ [0;0;255;255] = concat wc' ++ concat cc'.
Proof.
  intros HC HW HF Hfresh Hng Hwc Hty Hcap HK HPK Ht Ht' Hsame HB.
  destruct (cstep_prepared_nf c s ca p HC HW HF) as (s1 & E1 & L1 & _).
  assert (Hfr : fst (send_of c s ca p) =
                snd (render (key_for c s (ps_ty p)) (ps_ty p) (ps_data p) (ps_keys p) (ps_wc p) (ps_cc p))).
  { unfold send_of, pm_of. rewrite Hfresh. apply frame_for_fresh. }
  assert (Kc : pk_compress (key_for c s (ps_ty p)) = true).
  { unfold key_for. cbn [pk_compress]. rewrite Hng, Hwc, Hty. reflexivity. }
  destruct (rendered_frame_compressed (key_for c s (ps_ty p)) (ps_ty p) (ps_data p) (ps_keys p) (ps_wc p) (ps_cc p)
              Kc Hty Ht) as (pfs & z & f & rest & R & P1 & P2 & P3 & P4 & P5 & _); [rewrite Hsame; exact HB|exact HPK|].
  rewrite R in Hfr. cbn [snd] in Hfr. cbn [key_for pk_server] in P2.
  destruct (write_message_flate c (ps_ty p) (ps_data p) ic wc' cc' s HC HW HF HK Hng Hwc Hty Hcap Ht' HB)
    as (s2 & l & km & ch & z' & E2 & W2 & Dc & Z & D1 & D2 & D3 & D4 & _).
  assert (Hz : z' = z).
  { change flate_tail with [0;0;255;255] in Z. rewrite <- Hsame, <- P5 in Z. apply app_inv_tail in Z. exact Z. }
  rewrite Hz in D4.
  exists (fst (send_of c s ca p)), s1, (cache_put (ps_id p) (snd (send_of c s ca p)) ca), s2,
         (encode_frames (msgfs (ps_ty p) 4 l km ch)), pfs, (msgfs (ps_ty p) 4 l km ch), z.
  split; [exact E1|]. split; [exact L1|]. split; [exact E2|]. split; [exact W2|].
  split; [rewrite Hfr; apply parse_frames_encode; exact P1|].
  split; [apply parse_frames_encode; exact D1|].
  rewrite <- Hsame. auto 10.
Qed.

(* ------------------------------------------------------------------------------------------ *)
(* 6. Prepared close messages obey the rules of direct ones                                   *)
(* ------------------------------------------------------------------------------------------ *)
(* a successful prepared close marks the connection ... *)
Theorem prepared_close_sets_werr c s ca p s' ca' :
  cstep c (s, ca) (CPrepared p) = (None, (s', ca')) -> ps_ty p = c_CloseMessage ->
  werr s' = Some WCloseSent.
Proof.
  cbn [cstep]. cbv zeta.
  destruct (frame_for _ _ _ _ _) as [fr pm']. 
  destruct (wstep c (close_current c (ps_ic p) s) (WPreparedFrame (ps_ty p) fr)) as [e s1] eqn:E.
  intros H Hty. inversion H; subst e s1 ca'. clear H.
  exact (WS.Proofs.WriterStateP.close_step_sets_werr c _ _ _ E Hty).
Qed.

(* ... after which every prepared send fails with ErrCloseSent and writes nothing ... *)
Theorem after_close_prepared_fails c s ca p :
  werr s = Some WCloseSent ->
  fst (cstep c (s, ca) (CPrepared p)) = Some WCloseSent /\
  werr (fst (snd (cstep c (s, ca) (CPrepared p)))) = Some WCloseSent /\
  wire (fst (snd (cstep c (s, ca) (CPrepared p)))) = wire s.
Proof.
  intros HW. cbn [cstep]. cbv zeta.
  assert (D : dead s) by (unfold dead; congruence).
  destruct (close_current_dead c (ps_ic p) s D) as [F1 F2].
  destruct (frame_for _ _ _ _ _) as [fr pm'].
  rewrite (WS.Proofs.WriterStateP.prepared_err c (ps_ty p) fr (close_current c (ps_ic p) s) WCloseSent)
    by congruence.
  cbn [fst snd]. split; [reflexivity|]. split; [congruence|exact F2].
Qed.

(* ... and so does everything else (WriterStateP.after_close_calls_fail, quoted for [cstep]) *)
Corollary after_close_everything_fails c s ca o :
  werr s = Some WCloseSent ->
  match o with
  | COp (WSetDeadline _) | COp (WEnableCompression _) | COp (WSetLevel _)
  | COp (WWrite _ _) | COp (WWriteString _ _) | COp (WReadFrom _) => True
  | _ => fst (cstep c (s, ca) o) <> None
  end.
Proof.
  intros HW. destruct o as [w|p].
  - pose proof (WS.Proofs.WriterStateP.after_close_calls_fail c s w HW) as H.
    destruct w; try exact I; cbn [cstep]; destruct (wstep c s _) as [e s1]; exact H.
  - rewrite (proj1 (after_close_prepared_fails c s ca p HW)). discriminate.
Qed.

(* a prepared close on a live connection: one frame, opcode 8, then the mark *)
Corollary prepared_close_live c s ca p :
  cur s = None -> werr s = None -> fail_at s = None -> ps_ty p = c_CloseMessage ->
  exists s1 ca1, cstep c (s, ca) (CPrepared p) = (None, (s1, ca1)) /\ werr s1 = Some WCloseSent.
Proof.
  intros HC HW HF Hty. destruct (cstep_prepared_nf c s ca p HC HW HF) as (s1 & E & _ & _ & We & _).
  rewrite Hty in We. eauto.
Qed.

(* ------------------------------------------------------------------------------------------ *)
(* The hypotheses are satisfiable; bytes may differ on a client although the events agree     *)
(* ------------------------------------------------------------------------------------------ *)
Example headline_instance :
  let c := {| w_server := false; w_bufsize := 18; w_pooled := true; w_negotiated := true |} in
  let s := (init_wst c [[1;2;3;4]] None) <| wcomp := false |> in
  let p := {| ps_id := 7; ps_ty := 2; ps_data := [1;2;3;4;5;6]; ps_ic := []; ps_keys := [[9;9;9;9]];
              ps_wc := []; ps_cc := [] |} in
  exists fr W pfs dfs,
    evs (fst (snd (cstep c (s, []) (CPrepared p)))) = evs s ++ [TSetDL (deadline s); TWrite fr] /\
    wire (snd (wstep c s (WMessage 2 [1;2;3;4;5;6] [] [] []))) = wire s ++ W /\
    parse_frames fr = (tag pfs, TEnd) /\ parse_frames W = (tag dfs, TEnd) /\
    events_of pfs = [EMsg 2 false [1;2;3;4;5;6]] /\ events_of dfs = [EMsg 2 false [1;2;3;4;5;6]].
Proof.
  cbv zeta.
  edestruct (prepared_send_equals_write_message
               {| w_server := false; w_bufsize := 18; w_pooled := true; w_negotiated := true |}
               ((init_wst {| w_server := false; w_bufsize := 18; w_pooled := true; w_negotiated := true |}
                          [[1;2;3;4]] None) <| wcomp := false |>) []
               {| ps_id := 7; ps_ty := 2; ps_data := [1;2;3;4;5;6]; ps_ic := []; ps_keys := [[9;9;9;9]];
                  ps_wc := []; ps_cc := [] |} [] [] [])
    as (fr & s1 & ca1 & s2 & W & pfs & dfs & E1 & L1 & E2 & W2 & Pp & Pd & _ & _ & _ & _ & Ep & Ed & _);
    try reflexivity.
  - left. reflexivity.
  - repeat constructor.
  - repeat constructor.
  - right. split; [vm_compute; reflexivity|]. intros X. vm_compute in X. discriminate X.
  - exists fr, W, pfs, dfs.
    pose proof (f_equal (fun x => fst (snd x)) E1) as X1. cbn [fst snd] in X1.
    pose proof (f_equal snd E2) as X2. cbn [snd] in X2.
    split; [etransitivity; [apply (f_equal evs); exact X1|exact L1]|].
    split; [etransitivity; [apply (f_equal wire); exact X2|exact W2]|]. auto.
Qed.

Example client_bytes_differ_events_agree :
  let c := {| w_server := false; w_bufsize := 18; w_pooled := false; w_negotiated := false |} in
  let s := init_wst c [] None in
  let p := {| ps_id := 0; ps_ty := 2; ps_data := [1;2;3;4;5;6]; ps_ic := []; ps_keys := [];
              ps_wc := []; ps_cc := [] |} in
  let fr := wire (fst (snd (cstep c (s, []) (CPrepared p)))) in
  let W := wire (snd (wstep c s (WMessage 2 [1;2;3;4;5;6] [] [] []))) in
  beq fr W = false /\
  events_of (map fst (fst (parse_frames fr))) = [EMsg 2 false [1;2;3;4;5;6]] /\
  events_of (map fst (fst (parse_frames W))) = [EMsg 2 false [1;2;3;4;5;6]] /\
  length (fst (parse_frames fr)) = 1%nat /\ length (fst (parse_frames W)) = 2%nat.
Proof. vm_compute. repeat split; reflexivity. Qed.

(* [direct_ok] is needed: on a connection whose write buffer is smaller than a (valid) control
   payload, and which does not take the fast path, WriteMessage refuses the message
   (errInvalidControlFrame: the C01 defect) while WritePreparedMessage sends it *)
Example direct_ok_needed :
  let c := {| w_server := true; w_bufsize := 14 + 10; w_pooled := false; w_negotiated := true |} in
  let s := init_wst c [] None in
  let d := repeat 7 20 in
  let p := {| ps_id := 0; ps_ty := 9; ps_data := d; ps_ic := []; ps_keys := []; ps_wc := []; ps_cc := [] |} in
  fst (wstep c s (WMessage 9 d [] [] [])) = Some WInvalidControl /\
  fst (cstep c (s, []) (CPrepared p)) = None /\
  wire (fst (snd (cstep c (s, []) (CPrepared p)))) = [137; 20] ++ d.
Proof. vm_compute. repeat split; reflexivity. Qed.

Example compressed_instance :
  exists pfs z, render {| pk_server := false; pk_compress := true; pk_level := 1 |} 1 [104;105] [[5;6;7;8]]
                       [[1;2;3;4;5;6]] [[7;0;0;255;255]] = (None, encode_frames pfs) /\
                events_of pfs = [EMsg 1 true z] /\ z = [1;2;3;4;5;6;7].
Proof.
  destruct (rendered_frame_compressed {| pk_server := false; pk_compress := true; pk_level := 1 |} 1 [104;105]
              [[5;6;7;8]] [[1;2;3;4;5;6]] [[7;0;0;255;255]]) as (pfs & z & f & rest & R & _ & _ & _ & Ev & Z & _);
    try reflexivity.
  - exists [7]. reflexivity.
  - repeat constructor.
  - exists pfs, z. split; [exact R|]. split; [exact Ev|].
    change (concat [[1;2;3;4;5;6]] ++ concat [[7;0;0;255;255]]) with ([1;2;3;4;5;6;7] ++ [0;0;255;255]) in Z.
    apply app_inv_tail in Z. exact Z.
Qed.

Print Assumptions render_is_write_message.
Print Assumptions render_server_plain.
Print Assumptions rendered_frame_wellformed.
Print Assumptions prepared_ok_rendered.
Print Assumptions new_prepared_refuses_invalid.
Print Assumptions new_prepared_error_is_write_message_error.
Print Assumptions frame_for_keeps_payload.
Print Assumptions frame_for_cache_ok.
Print Assumptions frame_for_idempotent.
Print Assumptions frame_for_commute.
Print Assumptions send_all_frames.
Print Assumptions frame_for_server_plain.
Print Assumptions prepared_send_equals_write_message.
Print Assumptions prepared_send_server_shared.
Print Assumptions rendered_frame_compressed.
Print Assumptions prepared_send_equals_write_message_compressed.
Print Assumptions cstep_shared.
Print Assumptions prun_shared.
Print Assumptions prepared_ok_discharged.
Print Assumptions prepared_close_sets_werr.
Print Assumptions after_close_prepared_fails.
Print Assumptions after_close_everything_fails.
