Require Import WS.Base.Bytes WS.Model.Fold.

Lemma equal_ascii_fold_spec s t : equal_ascii_fold s t = true <-> lower s = lower t.
Proof.
  revert t; induction s as [|a s IH]; intros [|b t]; cbn [equal_ascii_fold lower map]; split; intros H; try easy.
  - apply andb_true_iff in H as [H1 H2]. apply N.eqb_eq in H1. apply IH in H2.
    unfold lower in H2. congruence.
  - inversion H as [[H1 H2]]. rewrite H1, N.eqb_refl. simpl. apply IH. exact H2.
Qed.

Lemma equal_ascii_fold_length s t : equal_ascii_fold s t = true -> length s = length t.
Proof.
  intros H. apply equal_ascii_fold_spec in H. unfold lower in H.
  rewrite <- (map_length ascii_lower s), H, map_length. reflexivity.
Qed.

(* a byte that is not an ASCII letter is only equal to itself under folding *)
Lemma ascii_lower_nonletter a b :
  ascii_lower a = ascii_lower b ->
  a = b \/ ((65 <= a <= 90 \/ 97 <= a <= 122) /\ (65 <= b <= 90 \/ 97 <= b <= 122)).
Proof.
  unfold ascii_lower. destruct ((65 <=? a) && (a <=? 90)) eqn:Ea; destruct ((65 <=? b) && (b <=? 90)) eqn:Eb; lia.
Qed.

Lemma check_same_origin_spec (url_host_of : bytes -> option bytes) origins host :
  check_same_origin url_host_of origins host = true <->
  origins = [] \/ exists o rest h, origins = o :: rest /\ url_host_of o = Some h /\ lower h = lower host.
Proof.
  unfold check_same_origin. destruct origins as [|o rest].
  - split; auto.
  - destruct (url_host_of o) as [h|] eqn:E.
    + rewrite equal_ascii_fold_spec. split.
      * intros H. right. exists o, rest, h. auto.
      * intros [H|(o' & r' & h' & H1 & H2 & H3)]; [discriminate|]. inversion H1; subst. congruence.
    + split; [discriminate|]. intros [H|(o' & r' & h' & H1 & H2 & H3)]; [discriminate|].
      inversion H1; subst. congruence.
Qed.

(* adversarial classes of the property: any byte outside ASCII letters must match exactly *)
Lemma fold_differs_nonletter h host i a b :
  nth_error h i = Some a -> nth_error host i = Some b -> a <> b ->
  ~ (65 <= a <= 90 \/ 97 <= a <= 122) \/ ~ (65 <= b <= 90 \/ 97 <= b <= 122) ->
  equal_ascii_fold h host = false.
Proof.
  intros Ha Hb Hne Hnl. destruct (equal_ascii_fold h host) eqn:E; [|reflexivity]. exfalso.
  apply equal_ascii_fold_spec in E. unfold lower in E.
  assert (Hl : nth_error (map ascii_lower h) i = nth_error (map ascii_lower host) i) by (rewrite E; reflexivity).
  rewrite !nth_error_map, Ha, Hb in Hl. cbn in Hl. inversion Hl as [Hl'].
  apply ascii_lower_nonletter in Hl'. destruct Hl' as [|[H1 H2]]; [congruence|]. tauto.
Qed.

Lemma fold_differs_length h host : length h <> length host -> equal_ascii_fold h host = false.
Proof.
  intros H. destruct (equal_ascii_fold h host) eqn:E; [|reflexivity].
  apply equal_ascii_fold_length in E. contradiction.
Qed.
