(* C04, first two header bytes: the model's decision (advanceFrame step 2) equals the Spec's
   list of header-level violations for ALL 256 x 256 byte pairs x {idle, in-message} x role x
   negotiated = 524 288 cases, by computation in the kernel (vm_compute), lifted to a
   universally quantified statement with forallb_forall. *)
Require Import WS.Base.Bytes WS.gen.Consts WS.Spec.Frame WS.Spec.Conformance WS.Model.Bufio WS.Model.Reader.

Ltac Zify.zify_post_hook ::= Z.div_mod_to_equations.

Definition frame_of_hdr (b0 b1:N) : frame :=
  {| fin := 128 <=? b0; rsv := (b0 mod 128) / 16; opcode := b0 mod 16;
     mkey := if 128 <=? b1 then Some [] else None; payload := [] |}.

Definition mk_cfg (sv ng:bool) : rcfg :=
  {| server := sv; negotiated := ng; custom_handlers := false; handler_fail := []; caps := [] |}.

Definition all_bytes : list N := map N.of_nat (seq 0 256).
Definition bools : list bool := [true; false].

Definition sweep_body (sv ng fs:bool) (b0 b1:N) : bool :=
  Bool.eqb (hdr_reject (mk_cfg sv ng) fs b0 b1)
           (violates_hdr sv ng (negb fs) (frame_of_hdr b0 b1) (b1 mod 128)).

Notation sweep :=
  (forallb (fun sv => forallb (fun ng => forallb (fun fs =>
  forallb (fun b0 => forallb (fun b1 => sweep_body sv ng fs b0 b1) all_bytes) all_bytes) bools) bools) bools).

Lemma sweep_ok : sweep = true.
Proof. vm_compute. reflexivity. Qed.

Lemma in_all_bytes b : b < 256 -> In b all_bytes.
Proof.
  intros H. unfold all_bytes. apply in_map_iff. exists (N.to_nat b). split; [apply N2Nat.id|].
  apply in_seq. lia.
Qed.
Lemma in_bools b : In b bools.
Proof. destruct b; simpl; auto. Qed.

Lemma forallb_in {A} (f:A -> bool) l x : forallb f l = true -> In x l -> f x = true.
Proof. intros H Hin. rewrite forallb_forall in H. apply H. exact Hin. Qed.

Lemma sweep_body_all sv ng fs b0 b1 : b0 < 256 -> b1 < 256 -> sweep_body sv ng fs b0 b1 = true.
Proof.
  intros H0 H1.
  pose proof (forallb_in _ _ sv sweep_ok (in_bools _)) as S1.
  pose proof (forallb_in _ _ ng S1 (in_bools _)) as S2.
  pose proof (forallb_in _ _ fs S2 (in_bools _)) as S3.
  pose proof (forallb_in _ _ b0 S3 (in_all_bytes _ H0)) as S4.
  exact (forallb_in _ _ b1 S4 (in_all_bytes _ H1)).
Qed.

Lemma hdr_reject_cfg c fs b0 b1 : hdr_reject c fs b0 b1 = hdr_reject (mk_cfg (server c) (negotiated c)) fs b0 b1.
Proof. reflexivity. Qed.

Theorem hdr_reject_iff_violates :
  forall c fin_seen b0 b1, b0 < 256 -> b1 < 256 ->
    hdr_reject c fin_seen b0 b1 =
    violates_hdr (server c) (negotiated c) (negb fin_seen) (frame_of_hdr b0 b1) (b1 mod 128).
Proof.
  intros c fs b0 b1 H0 H1. rewrite hdr_reject_cfg.
  pose proof (sweep_body_all (server c) (negotiated c) fs b0 b1 H0 H1) as S.
  unfold sweep_body in S. apply eqb_prop in S. exact S.
Qed.

(* close codes: the generated table + 3000-4999 equals the Spec's set, for all 65 536 codes *)
Definition code_body (hi lo:N) : bool :=
  let c := 256 * hi + lo in Bool.eqb (is_valid_received_close_code c) (close_code_ok c).
Notation code_sweep := (forallb (fun hi => forallb (fun lo => code_body hi lo) all_bytes) all_bytes).
Lemma code_sweep_ok : code_sweep = true.
Proof. vm_compute. reflexivity. Qed.
Theorem close_code_table_correct :
  forall c, c < 65536 -> is_valid_received_close_code c = close_code_ok c.
Proof.
  intros c H.
  assert (Hq : c / 256 < 256) by lia. assert (Hr : c mod 256 < 256) by lia.
  assert (Hc : 256 * (c / 256) + c mod 256 = c) by lia.
  pose proof (forallb_in _ _ (c / 256) code_sweep_ok (in_all_bytes _ Hq)) as S1.
  pose proof (forallb_in _ _ (c mod 256) S1 (in_all_bytes _ Hr)) as S2.
  unfold code_body in S2. cbv zeta in S2. rewrite Hc in S2. apply eqb_prop in S2. exact S2.
Qed.
Print Assumptions hdr_reject_iff_violates.
Print Assumptions close_code_table_correct.
