(* C20, clause 86 of the correspondence check, as a theorem about the writer model:
   a message writer hands bytes to the transport only while the connection holds the (pooled)
   write buffer those bytes are in.

   Part 1  the chronological walker [wh_run], its relation to the executable Spec walkers of
           Cases/C20.v ([writes_while_held], [held_after]) and the declarative reading
           [writes_inside] ("every transport write is preceded by an unmatched Get").
   Part 2  the relation [WH s s'] ("the events logged between s and s' keep every transport write
           inside a Get..Put bracket, and [held] tracks the brackets") for every function of the
           message-writer path.
   Part 3  one program step ([wstep], [cstep]): every op other than WriteControl and a prepared
           send; the implicit close performed by a prepared send.
   Part 4  whole programs ([crun], [wrun]): [Cases.C20.data_writes_held] holds of the model's own
           log and cumulative counts, from any reachable state.
   Everything holds for every configuration, key oracle, fault plan, flate oracle and program
   (invalid requests, abandoned writers, implicit closes included). *)
Require Import WS.Base.Bytes WS.gen.Consts WS.Model.Writer WS.Proofs.WriterStateP.
Require Import WS.Model.Prepared WS.Cases.WriterCase.
Require WS.Cases.C20.
From RecordUpdate Require Import RecordSet.
Import RecordSetNotations.

Module C20 := WS.Cases.C20.

(* ====================================================================== *)
(* Part 1: walkers over an event log in program order *)

(* a transport write (successful or failed) *)
Definition is_wr (e:tev) : bool := match e with TWrite _ | TWriteFail _ => true | _ => false end.

(* [wh_run h es]: walk [es] starting with ownership [h]; [None] as soon as a transport write
   happens while the buffer is not held, otherwise the ownership at the end *)
Fixpoint wh_run (h:bool) (es:list tev) : option bool :=
  match es with
  | [] => Some h
  | TGet :: r => wh_run true r
  | TPut :: r => wh_run false r
  | (TWrite _ | TWriteFail _) :: r => if h then wh_run h r else None
  | _ :: r => wh_run h r
  end.

(* the boolean form asked for *)
Definition writes_inside_b (h:bool) (es:list tev) : bool :=
  match wh_run h es with Some _ => true | None => false end.

(* the declarative form: every transport write of [es] happens while the buffer is held
   according to the Get/Put events before it ([h] = ownership before [es]) *)
Definition writes_inside (h:bool) (es:list tev) : Prop :=
  forall pre e post, es = pre ++ e :: post -> is_wr e = true -> C20.held_after h pre = true.

Lemma wh_run_app a : forall h b,
  wh_run h (a ++ b) = obind (wh_run h a) (fun h' => wh_run h' b).
Proof.
  induction a as [|e a IH]; intros h b; [reflexivity|].
  destruct e; cbn [Datatypes.app wh_run]; try apply IH; destruct h; try apply IH; reflexivity.
Qed.

(* [wh_run] is the pair of Spec walkers of Cases/C20.v *)
Lemma wh_run_walkers es : forall h,
  match wh_run h es with
  | Some h' => C20.writes_while_held h es = (true, h') /\ C20.held_after h es = h'
  | None => fst (C20.writes_while_held h es) = false
  end.
Proof.
  induction es as [|e es IH]; intros h; [cbn; auto|].
  destruct e; cbn [wh_run C20.writes_while_held C20.held_after]; try apply IH;
    destruct h; try apply IH; reflexivity.
Qed.

Lemma wh_run_some h es h' : wh_run h es = Some h' ->
  C20.writes_while_held h es = (true, h') /\ C20.held_after h es = h'.
Proof. intros H. pose proof (wh_run_walkers es h) as X. rewrite H in X. exact X. Qed.

Lemma writes_inside_b_walker h es : writes_inside_b h es = fst (C20.writes_while_held h es).
Proof.
  unfold writes_inside_b. pose proof (wh_run_walkers es h) as X.
  destruct (wh_run h es); [destruct X as [-> _]; reflexivity|symmetry; exact X].
Qed.

Lemma held_after_app a : forall h b, C20.held_after h (a ++ b) = C20.held_after (C20.held_after h a) b.
Proof.
  induction a as [|e a IH]; intros h b; [reflexivity|].
  destruct e; cbn [Datatypes.app C20.held_after]; apply IH.
Qed.

Lemma pool_evs_rev l : pool_evs (rev l) = rev (pool_evs l).
Proof.
  induction l as [|e l IH]; [reflexivity|]. cbn [rev]. rewrite pool_evs_app, IH.
  unfold pool_evs at 2 3. cbn [filter]. destruct (negb (is_tr e)); cbn [rev]; [reflexivity|apply app_nil_r].
Qed.

Lemma held_after_nopool es : forall h, pool_evs es = [] -> C20.held_after h es = h.
Proof.
  induction es as [|e es IH]; intros h H; [reflexivity|].
  unfold pool_evs in H. cbn [filter] in H.
  destruct e; cbn [is_tr negb] in H; try discriminate H; cbn [C20.held_after]; apply IH, H.
Qed.

(* boolean and declarative forms agree *)
Lemma writes_inside_iff es : forall h, writes_inside h es <-> wh_run h es <> None.
Proof.
  induction es as [|x es IH]; intros h.
  - split; [cbn; congruence|]. intros _ pre e post H. destruct pre; discriminate H.
  - assert (Hcons : forall h', (C20.held_after h [x] = h') ->
              (is_wr x = true -> h = true) ->
              writes_inside h' es -> writes_inside h (x :: es)).
    { intros h' Hh Hw Hin pre e post Heq He. destruct pre as [|y pre]; cbn [Datatypes.app] in Heq.
      - inv Heq. cbn [C20.held_after]. apply Hw, He.
      - inv Heq. change (y :: pre) with ([y] ++ pre). rewrite held_after_app. eapply Hin; eauto. }
    assert (Htail : forall h', C20.held_after h [x] = h' -> writes_inside h (x :: es) -> writes_inside h' es).
    { intros h' Hh Hin pre e post Heq He. subst h'. rewrite <- held_after_app. cbn [Datatypes.app].
      apply (Hin (x :: pre) e post); [rewrite Heq; reflexivity|exact He]. }
    assert (Hhead : writes_inside h (x :: es) -> is_wr x = true -> h = true).
    { intros Hin He. apply (Hin [] x es); [reflexivity|exact He]. }
    split.
    + intros Hin. pose proof (Hhead Hin) as Hx.
      destruct x; cbn [wh_run]; try (apply IH; eapply Htail; [reflexivity|exact Hin]).
      * rewrite (Hx eq_refl). apply IH. eapply Htail; [|exact Hin]. cbn. rewrite (Hx eq_refl). reflexivity.
      * rewrite (Hx eq_refl). apply IH. eapply Htail; [|exact Hin]. cbn. rewrite (Hx eq_refl). reflexivity.
    + intros Hr. destruct x; cbn [wh_run] in Hr;
        try (eapply Hcons; [reflexivity|cbn; congruence|apply IH; exact Hr]).
      * destruct h; [|congruence]. eapply Hcons; [reflexivity|auto|apply IH; exact Hr].
      * destruct h; [|congruence]. eapply Hcons; [reflexivity|auto|apply IH; exact Hr].
Qed.

Lemma writes_inside_b_iff h es : writes_inside_b h es = true <-> writes_inside h es.
Proof.
  rewrite writes_inside_iff. unfold writes_inside_b. destruct (wh_run h es); split; congruence.
Qed.

(* "held according to the events so far" = the last pool event is a Get: an unmatched Get *)
Lemma held_after_unmatched_get pre :
  C20.held_after false pre = true <-> exists a b, pre = a ++ TGet :: b /\ pool_evs b = [].
Proof.
  split.
  - induction pre as [|x l IH] using rev_ind; [cbn; discriminate|].
    rewrite held_after_app. intros H.
    assert (Hgen : is_tr x = true -> C20.held_after false l = true ->
              exists a b, l ++ [x] = a ++ TGet :: b /\ pool_evs b = []).
    { intros Hx Hl. destruct (IH Hl) as (a & b & -> & Hb). exists a, (b ++ [x]).
      rewrite <- app_assoc. split; [reflexivity|]. rewrite pool_evs_app, Hb.
      unfold pool_evs. cbn [filter]. rewrite Hx. reflexivity. }
    destruct x; cbn [C20.held_after] in H; try (apply Hgen; [reflexivity|exact H]).
    + exists l, []. split; reflexivity.
    + discriminate H.
  - intros (a & b & -> & Hb). rewrite held_after_app. cbn [C20.held_after]. apply held_after_nopool, Hb.
Qed.

(* [alternates] (WriterStateP) agrees with [held_after] whenever it succeeds *)
Lemma alternates_held_after es : forall h h', alternates h es = Some h' -> C20.held_after h es = h'.
Proof.
  induction es as [|e es IH]; intros h h' H; [cbn in *; congruence|].
  destruct e; cbn [alternates C20.held_after] in *; try (apply IH; exact H); destruct h; try discriminate H; apply IH, H.
Qed.

(* ====================================================================== *)
(* Part 2: the relation WH on the message-writer path *)

(* between s and s' every transport write was made while the buffer was held, and [held s']
   is what the Get/Put events in between make of [held s] *)
Definition WH (s s':wst) : Prop :=
  exists d, revs s' = d ++ revs s /\ wh_run (held s) (rev d) = Some (held s').

Lemma WH_refl s : WH s s.
Proof. exists []. split; reflexivity. Qed.

Lemma WH_trans s s1 s2 : WH s s1 -> WH s1 s2 -> WH s s2.
Proof.
  intros (d1 & Hr1 & H1) (d2 & Hr2 & H2). exists (d2 ++ d1). split.
  - rewrite Hr2, Hr1. apply app_assoc.
  - rewrite rev_app_distr, wh_run_app, H1. cbn [obind]. exact H2.
Qed.

(* an update that touches neither the log nor the ownership *)
Lemma WH_same s0 s s' : WH s0 s -> revs s' = revs s -> held s' = held s -> WH s0 s'.
Proof. intros (d & Hr & H) Hr' Hh. exists d. rewrite Hr', Hh. auto. Qed.

Ltac wh_same := eapply WH_same; [ | wsimpl; reflexivity | wsimpl; reflexivity ].

(* the precondition: an open message writer has its buffer (first half of [PI]) *)
Definition CurHeld (s:wst) : Prop := cur s <> None -> held s = true.

Lemma Inv_CurHeld c s : Inv c s -> CurHeld s.
Proof. intros ((H & _) & _). exact H. Qed.

Lemma MW_CurHeld c s s' : MW c s s' -> CurHeld s -> CurHeld s'.
Proof.
  intros [_ (d & _ & [(Hc & Hh & _)|(_ & Hn & _)])] H X.
  - rewrite Hh. apply H. apply (samecur_some _ _ Hc), X.
  - congruence.
Qed.

Lemma group_wh dl g w : group dl g w -> wh_run true (rev g) = Some true.
Proof. destruct 1; reflexivity. Qed.

(* Conn.write: all its writes happen under the ownership it is entered with *)
Lemma cw_post_WH ft dl s e s' : cw_post ft dl s e s' -> held s = true -> WH s s'.
Proof.
  intros [Hc [(e0 & Hw & -> & ->)|(Hw & g & Hr & Hg & _)]] Hh.
  - apply WH_refl.
  - exists g. split; [exact Hr|]. rewrite (core_held _ _ Hc), Hh. eapply group_wh; eauto.
Qed.

Lemma write_fatal_WH e s : WH s (write_fatal e s).
Proof.
  eapply WH_same; [apply WH_refl|apply write_fatal_revs|apply core_held, write_fatal_core].
Qed.

(* endMessage: the Put comes after everything else *)
Lemma end_message_WH c e m s0 s : WH s0 s -> WH s0 (end_message c e m s).
Proof.
  intros H. unfold end_message. destruct (m_err m); [exact H|]. destruct (w_pooled c).
  - eapply WH_trans; [exact H|]. exists [TPut]. unfold log. wsimpl. split; reflexivity.
  - wh_same. exact H.
Qed.

Lemma flush_frame_WH c final extra m s e s' :
  held s = true -> flush_frame c final extra m s = (e, s') -> WH s s'.
Proof.
  unfold flush_frame. intros Hh H.
  destruct (is_control_ty (m_ftype m) && _).
  { inv H. apply end_message_WH, WH_refl. }
  wsimpl. destruct (w_server c).
  - destruct (conn_write _ _ _ _ _ _) as [e1 s1] eqn:Hc.
    apply conn_write_spec, cw_post_WH in Hc; [|wsimpl; exact Hh]. wsimpl.
    assert (H0 : WH s s1).
    { eapply WH_trans; [|exact Hc]. wh_same. apply WH_refl. }
    destruct e1; [|destruct final]; inv H.
    + apply end_message_WH; auto.
    + apply end_message_WH; auto.
    + wh_same. exact H0.
  - destruct extra.
    + destruct (conn_write _ _ _ _ _ _) as [e1 s1] eqn:Hc.
      apply conn_write_spec, cw_post_WH in Hc; [|wsimpl; exact Hh]. wsimpl.
      assert (H0 : WH s s1).
      { eapply WH_trans; [|exact Hc]. wh_same. apply WH_refl. }
      destruct e1; [|destruct final]; inv H.
      * apply end_message_WH; auto.
      * apply end_message_WH; auto.
      * wh_same. exact H0.
    + inv H. apply end_message_WH. eapply WH_trans; [|apply write_fatal_WH]. wh_same. apply WH_refl.
Qed.

Lemma copy_loop_WH c fuel : forall p s e s', CurHeld s -> copy_loop fuel c p s = (e, s') -> WH s s'.
Proof.
  induction fuel as [|f IH]; intros p s e s' HH H; destruct p as [|b p]; cbn [copy_loop] in H.
  - inv H. apply WH_refl.
  - inv H. wh_same. apply WH_refl.
  - inv H. apply WH_refl.
  - destruct (cur s) as [m|] eqn:Hcur; [|inv H; apply WH_refl].
    assert (Hh : held s = true) by (apply HH; congruence).
    destruct (_ =? 0).
    + destruct (flush_frame _ _ _ _ _) as [e1 s1] eqn:Hf.
      pose proof (flush_frame_MW _ _ _ _ _ _ _ Hcur Hf) as HM.
      apply flush_frame_WH in Hf; [|exact Hh].
      destruct e1; [inv H; exact Hf|]. apply IH in H; [|eapply MW_CurHeld; eauto]. eapply WH_trans; eauto.
    + apply IH in H.
      * eapply WH_trans; [|exact H]. wh_same. apply WH_refl.
      * intros _. wsimpl. exact Hh.
Qed.

Lemma mw_write_WH c p s e s' : CurHeld s -> mw_write c p s = (e, s') -> WH s s'.
Proof.
  unfold mw_write. intros HH H. destruct (cur s) eqn:Hcur; [|inv H; apply WH_refl].
  destruct (_ && _); [eapply flush_frame_WH|eapply copy_loop_WH]; eauto.
  apply HH. congruence.
Qed.

Lemma mw_write_string_WH c p s e s' : CurHeld s -> mw_write_string c p s = (e, s') -> WH s s'.
Proof.
  unfold mw_write_string. intros HH H. destruct (cur s); [|inv H; apply WH_refl].
  eapply copy_loop_WH; eauto.
Qed.

Lemma read_from_WH c fuel : forall chunks s e s', CurHeld s -> read_from fuel c chunks s = (e, s') -> WH s s'.
Proof.
  induction fuel as [|f IH]; intros chunks s e s' HH H; cbn [read_from] in H.
  - inv H. wh_same. apply WH_refl.
  - destruct (cur s) as [m|] eqn:Hcur; [|inv H; apply WH_refl].
    assert (Hh : held s = true) by (apply HH; congruence).
    destruct (_ =? 0).
    + destruct chunks as [|[|b ch'] rest]; [inv H; apply WH_refl| |].
      { destruct rest as [|r1 rest1]; [inv H; apply WH_refl|]. apply IH in H; assumption. }
      destruct (flush_frame _ _ _ _ _) as [e1 s1] eqn:Hf.
      pose proof (flush_frame_MW _ _ _ _ _ _ _ Hcur Hf) as HM.
      apply flush_frame_WH in Hf; [|exact Hh].
      destruct e1; [inv H; exact Hf|].
      assert (HM2 : MW c s (put_byte b s1)) by (eapply MW_trans; [exact HM|apply put_byte_MW]).
      assert (HW2 : WH s (put_byte b s1)).
      { unfold put_byte. destruct (cur s1); [|exact Hf]. wh_same. exact Hf. }
      destruct ch' as [|b1 ch1]; [destruct rest as [|r1 rest1]|].
      * inv H. exact HW2.
      * apply IH in H; [|eapply MW_CurHeld; eauto]. eapply WH_trans; eauto.
      * apply IH in H; [|eapply MW_CurHeld; eauto]. eapply WH_trans; eauto.
    + destruct chunks as [|ch rest]; [inv H; apply WH_refl|].
      destruct (dropN _ ch) as [|r0 rem]; [destruct rest as [|r1 rest1]|].
      * inv H. wh_same. apply WH_refl.
      * apply IH in H; [|intros _; wsimpl; exact Hh]. eapply WH_trans; [|exact H]. wh_same. apply WH_refl.
      * apply IH in H; [|intros _; wsimpl; exact Hh]. eapply WH_trans; [|exact H]. wh_same. apply WH_refl.
Qed.

Lemma mw_close_WH c s e s' : CurHeld s -> mw_close c s = (e, s') -> WH s s'.
Proof.
  unfold mw_close. intros HH H. destruct (cur s) eqn:Hcur; [|inv H; apply WH_refl].
  eapply flush_frame_WH; eauto. apply HH. congruence.
Qed.

Lemma trunc_write_WH c p f s e f' s' : CurHeld s -> trunc_write c p f s = (e, f', s') -> WH s s'.
Proof.
  unfold trunc_write. intros HH H. destruct (dropN _ p) as [|b r]; [inv H; apply WH_refl|].
  destruct (mw_write _ _ s) as [e1 s1] eqn:E1.
  pose proof (MW_CurHeld _ _ _ (mw_write_MW _ _ _ _ _ E1) HH) as HH1.
  apply mw_write_WH in E1; [|exact HH].
  destruct e1; [inv H; exact E1|].
  destruct (mw_write _ _ s1) as [e2 s2] eqn:E2. apply mw_write_WH in E2; [|exact HH1].
  inv H. eapply WH_trans; eauto.
Qed.

Lemma flate_emit_WH c chunks : forall f s f' s', CurHeld s -> flate_emit c chunks f s = (f', s') -> WH s s'.
Proof.
  induction chunks as [|ch rest IH]; intros f s f' s' HH H; cbn [flate_emit] in H.
  - inv H. apply WH_refl.
  - destruct (f_err f); [inv H; apply WH_refl|].
    destruct (trunc_write c ch f s) as [[e1 f1] s1] eqn:E1.
    pose proof (MW_CurHeld _ _ _ (proj1 (trunc_write_MW _ _ _ _ _ _ _ E1)) HH) as HH1.
    apply trunc_write_WH in E1; [|exact HH].
    destruct e1; [inv H; exact E1|]. apply IH in H; [|exact HH1]. eapply WH_trans; eauto.
Qed.

Lemma flate_write_WH c chunks f s e s' : CurHeld s -> flate_write c chunks f s = (e, s') -> WH s s'.
Proof.
  unfold flate_write. intros HH H. destruct (negb (f_open f)); [inv H; apply WH_refl|].
  destruct (flate_emit c chunks f s) as [f1 s1] eqn:E1. apply flate_emit_WH in E1; [|exact HH].
  inv H. wh_same. exact E1.
Qed.

Lemma flate_close_WH c chunks f s e s' : CurHeld s -> flate_close c chunks f s = (e, s') -> WH s s'.
Proof.
  unfold flate_close. intros HH H. destruct (negb (f_open f)); [inv H; apply WH_refl|].
  destruct (flate_emit c chunks f s) as [f1 s1] eqn:E1.
  pose proof (MW_CurHeld _ _ _ (proj1 (flate_emit_MW _ _ _ _ _ _ E1)) HH) as HH1.
  apply flate_emit_WH in E1; [|exact HH].
  wsimpl. destruct (negb (beq _ _)).
  { inv H. wh_same. exact E1. }
  destruct (is_cur _ _).
  - destruct (mw_close c _) as [e2 s2] eqn:E2. apply mw_close_WH in E2; [|exact HH1]. wsimpl. inv H.
    eapply WH_trans; [exact E1|]. eapply WH_trans; [|exact E2]. wh_same. apply WH_refl.
  - inv H. wh_same. exact E1.
Qed.

Lemma close_current_WH c ic s : CurHeld s -> WH s (close_current c ic s).
Proof.
  intros HH. unfold close_current. destruct (cur s); [|apply WH_refl].
  wh_same. destruct (cur_flate s).
  - destruct (fl s); [|apply WH_refl].
    destruct (flate_close c ic f s) as [e1 s1] eqn:E1. eapply flate_close_WH; eauto.
  - destruct (mw_close c s) as [e1 s1] eqn:E1. eapply mw_close_WH; eauto.
Qed.

(* beginMessage: the Get comes after the implicit close and before anything else *)
Lemma begin_message_WH c ty ic s e s' : CurHeld s -> begin_message c ty ic s = (e, s') ->
  WH s s' /\ (e = None -> held s' = true).
Proof.
  unfold begin_message. intros HH H. pose proof (close_current_WH c ic s HH) as X.
  destruct (_ && _); [inv H; split; [exact X|discriminate]|].
  destruct (werr _); [inv H; split; [exact X|discriminate]|].
  destruct (held (close_current c ic s)) eqn:Hh; inv H; [split; [exact X|intros _; exact Hh]|].
  split; [|reflexivity].
  eapply WH_trans; [exact X|]. exists [TGet]. unfold log. wsimpl. split; reflexivity.
Qed.

Lemma next_writer_WH c ty ic s e s' : CurHeld s -> next_writer c ty ic s = (e, s') -> WH s s'.
Proof.
  unfold next_writer, new_mw. intros HH H.
  destruct (begin_message c ty ic s) as [e1 s1] eqn:E1. apply begin_message_WH in E1; [|exact HH].
  destruct E1 as [E1 _].
  destruct e1; [inv H; exact E1|].
  destruct (_ && _); inv H; wh_same; exact E1.
Qed.

Lemma app_write_WH c sv p wc s e s' : CurHeld s -> app_write c sv p wc s = (e, s') -> WH s s'.
Proof.
  unfold app_write. intros HH H. destruct (app s); [|inv H; apply WH_refl].
  destruct (app_flate s).
  - destruct (fl s); [|inv H; apply WH_refl].
    destruct (Nat.eqb _ _); [|inv H; apply WH_refl]. eapply flate_write_WH; eauto.
  - destruct (is_cur _ _); [|inv H; apply WH_refl].
    destruct sv; [eapply mw_write_string_WH|eapply mw_write_WH]; eauto.
Qed.

Lemma app_read_from_WH c chunks s e s' : CurHeld s -> app_read_from c chunks s = (e, s') -> WH s s'.
Proof.
  unfold app_read_from. intros HH H. destruct (app s); [|inv H; apply WH_refl].
  destruct (app_flate s); [inv H; apply WH_refl|].
  destruct (is_cur _ _); [|inv H; apply WH_refl]. eapply read_from_WH; eauto.
Qed.

Lemma app_close_WH c cc s e s' : CurHeld s -> app_close c cc s = (e, s') -> WH s s'.
Proof.
  unfold app_close. intros HH H. destruct (app s); [|inv H; apply WH_refl].
  destruct (app_flate s).
  - destruct (fl s); [|inv H; apply WH_refl].
    destruct (Nat.eqb _ _); [|inv H; apply WH_refl]. eapply flate_close_WH; eauto.
  - destruct (is_cur _ _); [|inv H; apply WH_refl]. eapply mw_close_WH; eauto.
Qed.

Lemma write_message_WH c ty data ic wc cc s e s' :
  Inv c s -> write_message c ty data ic wc cc s = (e, s') -> WH s s'.
Proof.
  unfold write_message, new_mw. intros HI H. pose proof (Inv_CurHeld _ _ HI) as HH. destruct (_ && _).
  - destruct (begin_message c ty ic s) as [e1 s1] eqn:E1. apply begin_message_WH in E1; [|exact HH].
    destruct E1 as [E1 Hh1].
    destruct e1; [inv H; exact E1|]. apply flush_frame_WH in H; [|wsimpl; auto].
    eapply WH_trans; [exact E1|]. eapply WH_trans; [|exact H]. wh_same. apply WH_refl.
  - destruct (next_writer c ty ic s) as [e1 s1] eqn:E1.
    pose proof (next_writer_inv _ _ _ _ _ _ HI E1) as HI1. apply next_writer_WH in E1; [|exact HH].
    destruct e1; [inv H; exact E1|].
    destruct (app_write c false data wc s1) as [e2 s2] eqn:E2.
    pose proof (app_write_inv _ _ _ _ _ _ _ HI1 E2) as HI2.
    apply app_write_WH in E2; [|eapply Inv_CurHeld; eauto].
    pose proof (WH_trans _ _ _ E1 E2) as E12.
    destruct e2; [inv H; exact E12|]. apply app_close_WH in H; [|eapply Inv_CurHeld; eauto].
    eapply WH_trans; eauto.
Qed.

(* ====================================================================== *)
(* Part 3: one program step *)

(* the ops whose transport writes come out of the connection's write buffer: everything but
   WriteControl (own stack buffer) and a prepared frame (the PreparedMessage's own bytes) *)
Definition is_msg_op (o:wop) : bool :=
  match o with WControl _ _ _ | WPreparedFrame _ _ => false | _ => true end.

Theorem wstep_WH c s o e s' : Inv c s -> is_msg_op o = true -> wstep c s o = (e, s') -> WH s s'.
Proof.
  intros HI Ho H. pose proof (Inv_CurHeld _ _ HI) as HH. destruct o; try discriminate Ho; cbn [wstep] in H.
  - eapply write_message_WH; eauto.
  - eapply next_writer_WH; eauto.
  - eapply app_write_WH; eauto.
  - eapply app_write_WH; eauto.
  - eapply app_read_from_WH; eauto.
  - eapply app_close_WH; eauto.
  - inv H. wh_same. apply WH_refl.
  - inv H. wh_same. apply WH_refl.
  - destruct (valid_level l); inv H; [wh_same|]; apply WH_refl.
Qed.

(* the events appended by a step, in program order *)
Definition appended (s s':wst) : list tev := skipn (length (evs s)) (evs s').

Lemma appended_ext s s' d : revs s' = d ++ revs s -> appended s s' = rev d.
Proof.
  intros Hr. unfold appended. rewrite !evs_rev, Hr, rev_app_distr.
  rewrite skipn_app, skipn_all, Nat.sub_diag. reflexivity.
Qed.

Lemma evs_ext s s' d : revs s' = d ++ revs s -> evs s' = evs s ++ rev d.
Proof. intros Hr. rewrite !evs_rev, Hr, rev_app_distr. reflexivity. Qed.

(* per op, in the terms of the Spec walkers of Cases/C20.v *)
Theorem wstep_writes_while_held c s o e s' :
  Inv c s -> is_msg_op o = true -> wstep c s o = (e, s') ->
  evs s' = evs s ++ appended s s' /\
  C20.writes_while_held (held s) (appended s s') = (true, held s') /\
  C20.held_after (held s) (appended s s') = held s'.
Proof.
  intros HI Ho H. destruct (wstep_WH _ _ _ _ _ HI Ho H) as (d & Hr & Hw).
  rewrite (appended_ext _ _ _ Hr). split; [apply evs_ext, Hr|]. apply wh_run_some, Hw.
Qed.

(* the ownership recorded in a reachable state is what the log says *)
Lemma Inv_held_after c s : w_pooled c = true -> Inv c s -> C20.held_after false (evs s) = held s.
Proof.
  intros Hp ((_ & H) & _). rewrite Hp in H. apply alternates_held_after.
  rewrite evs_rev, alternates_rev. exact H.
Qed.

(* per op, declaratively and within the whole log: every transport write appended by an op
   other than WriteControl / a prepared frame is preceded by an unmatched Get *)
Theorem wstep_writes_after_get c s o e s' :
  w_pooled c = true -> Inv c s -> is_msg_op o = true -> wstep c s o = (e, s') ->
  forall pre x post, evs s' = pre ++ x :: post -> (length (evs s) <= length pre)%nat -> is_wr x = true ->
    exists a b, pre = a ++ TGet :: b /\ pool_evs b = [].
Proof.
  intros Hp HI Ho H pre x post Heq Hlen Hx.
  destruct (wstep_WH _ _ _ _ _ HI Ho H) as (d & Hr & Hw).
  rewrite (evs_ext _ _ _ Hr) in Heq.
  assert (Hsplit : exists pre', pre = evs s ++ pre' /\ rev d = pre' ++ x :: post).
  { exists (skipn (length (evs s)) pre).
    assert (Hpre : pre = evs s ++ skipn (length (evs s)) pre).
    { rewrite <- (firstn_skipn (length (evs s)) pre) at 1. f_equal.
      apply (f_equal (firstn (length (evs s)))) in Heq.
      rewrite firstn_app, firstn_all, Nat.sub_diag in Heq. cbn [firstn] in Heq. rewrite app_nil_r in Heq.
      rewrite firstn_app in Heq.
      replace (length (evs s) - length pre)%nat with O in Heq by lia. cbn [firstn] in Heq.
      rewrite app_nil_r in Heq. symmetry. exact Heq. }
    split; [exact Hpre|]. rewrite Hpre, <- app_assoc in Heq. apply app_inv_head in Heq. exact Heq. }
  destruct Hsplit as (pre' & -> & Hd).
  apply held_after_unmatched_get. rewrite held_after_app, (Inv_held_after _ _ Hp HI).
  assert (Hin : writes_inside (held s) (rev d)) by (apply writes_inside_iff; congruence).
  eapply Hin; eauto.
Qed.

(* WriteControl and a prepared frame leave pool and ownership alone *)
Lemma wstep_exempt_pool c s o e s' : is_msg_op o = false -> wstep c s o = (e, s') ->
  exists g, revs s' = g ++ revs s /\ pool_evs g = [] /\ held s' = held s.
Proof.
  intros Ho H. destruct o; try discriminate Ho.
  - destruct (write_control_no_pool _ _ _ _ _ _ _ H) as (Hh & _ & g & Hr & Hg). eauto.
  - destruct (prepared_no_pool _ _ _ _ _ _ H) as (Hh & _ & g & Hr & Hg). eauto.
Qed.

(* ---- the case format's step (WritePreparedMessage included) ---- *)
(* ops the Spec walker [data_writes_held] exempts *)
Definition cop_exempt (o:cop) : bool :=
  match o with COp (WControl _ _ _) | CPrepared _ => true | _ => false end.

(* [COp (WPreparedFrame ..)] is the internal second half of [CPrepared]; the case format never
   contains it on its own (p_cop has no tag for it) and the walker does not exempt it *)
Definition cop_wf (o:cop) : bool := match o with COp (WPreparedFrame _ _) => false | _ => true end.

(* what [data_writes_held] needs of one step *)
Definition CS (o:cop) (s s':wst) : Prop :=
  exists d, revs s' = d ++ revs s /\ C20.held_after (held s) (rev d) = held s' /\
    (cop_exempt o = false -> fst (C20.writes_while_held (held s) (rev d)) = true).

Lemma close_current_Inv c ic s : Inv c s -> Inv c (close_current c ic s).
Proof.
  intros HI. destruct (close_current_inv c ic s HI) as (HP & HE & Hn & HD).
  split; [exact HP|]. split; [exact HE|]. intros Hp Hh. right. auto.
Qed.

(* a prepared send: the implicit close of an open writer obeys the rule; the send itself
   (its own frame bytes, not the write buffer) only adds transport events *)
Theorem cstep_prepared_WH c s ca p e s' ca' :
  Inv c s -> cstep c (s, ca) (CPrepared p) = (e, (s', ca')) ->
  let s1 := close_current c (ps_ic p) s in
  WH s s1 /\ exists g, revs s' = g ++ revs s1 /\ tr_only g = true /\ held s' = held s1.
Proof.
  intros HI. cbn [cstep]. cbv zeta.
  destruct (frame_for _ _ _ _ _) as [fr pm'].
  destruct (wstep c (close_current c (ps_ic p) s) (WPreparedFrame (ps_ty p) fr)) as [e1 s2] eqn:E.
  intros H. inversion H; subst e1 s2 ca'. clear H.
  split; [apply close_current_WH, (Inv_CurHeld _ _ HI)|].
  cbn [wstep] in E. apply conn_write_spec in E.
  destruct (cw_post_tr _ _ _ _ _ E) as (g & Hr & Ht). exists g. split; [exact Hr|]. split; [exact Ht|].
  apply core_held, E.
Qed.

Lemma tr_only_rev l : tr_only (rev l) = tr_only l.
Proof.
  induction l as [|e l IH]; [reflexivity|]. cbn [rev]. rewrite tr_only_app, IH.
  cbn [tr_only forallb]. rewrite andb_true_r. apply andb_comm.
Qed.

(* the same in the terms of the Spec walkers: the events a prepared send appends are those of the
   implicit close (none if no writer was open), which obey the rule and account for every pool
   event, followed by the send's own transport events *)
Theorem cstep_prepared_writes_while_held c s ca p e s' ca' :
  Inv c s -> cstep c (s, ca) (CPrepared p) = (e, (s', ca')) ->
  let s1 := close_current c (ps_ic p) s in
  (cur s = None -> s1 = s) /\
  exists own, appended s s' = appended s s1 ++ own /\ tr_only own = true /\
    C20.writes_while_held (held s) (appended s s1) = (true, held s') /\
    C20.held_after (held s) (appended s s') = held s'.
Proof.
  intros HI H s1. split; [apply close_current_none|].
  destruct (cstep_prepared_WH _ _ _ _ _ _ _ HI H) as [(d1 & Hr1 & Hw1) (g & Hr & Ht & Hh)].
  fold s1 in Hr1, Hw1, Hr, Hh. apply wh_run_some in Hw1. destruct Hw1 as [Hw1 Ha1].
  assert (Hr' : revs s' = (g ++ d1) ++ revs s) by (rewrite Hr, Hr1; apply app_assoc).
  exists (rev g). rewrite (appended_ext _ _ _ Hr'), (appended_ext _ _ _ Hr1), rev_app_distr.
  split; [reflexivity|]. split; [rewrite tr_only_rev; exact Ht|]. rewrite Hh. split; [exact Hw1|].
  rewrite held_after_app, Ha1. apply held_after_nopool. rewrite pool_evs_rev, (tr_only_pool _ Ht). reflexivity.
Qed.

Lemma cstep_CS c s ca o e s' ca' :
  Inv c s -> cop_wf o = true -> cstep c (s, ca) o = (e, (s', ca')) -> CS o s s' /\ Inv c s'.
Proof.
  intros HI Hwf H. destruct o as [w|p].
  - cbn [cstep] in H. destruct (wstep c s w) as [e1 s1] eqn:E. inversion H; subst e1 s1 ca'. clear H.
    split; [|eapply wstep_inv; eauto].
    destruct (is_msg_op w) eqn:Hm.
    + destruct (wstep_WH _ _ _ _ _ HI Hm E) as (d & Hr & Hw). apply wh_run_some in Hw.
      exists d. split; [exact Hr|]. split; [apply Hw|]. intros _. rewrite (proj1 Hw). reflexivity.
    + destruct (wstep_exempt_pool _ _ _ _ _ Hm E) as (g & Hr & Hg & Hh).
      exists g. split; [exact Hr|]. split.
      * rewrite Hh. apply held_after_nopool. rewrite pool_evs_rev, Hg. reflexivity.
      * destruct w; try discriminate Hm; try discriminate Hwf. cbn. discriminate.
  - pose proof (cstep_prepared_WH _ _ _ _ _ _ _ HI H) as [(d1 & Hr1 & Hw1) (g & Hr & Ht & Hh)].
    apply wh_run_some in Hw1. split.
    + exists (g ++ d1). split; [rewrite Hr, Hr1; apply app_assoc|]. split; [|cbn; discriminate].
      rewrite rev_app_distr, held_after_app, (proj2 Hw1), Hh. apply held_after_nopool.
      rewrite pool_evs_rev, (tr_only_pool _ Ht). reflexivity.
    + revert H. cbn [cstep]. cbv zeta.
      destruct (frame_for _ _ _ _ _) as [fr pm'].
      destruct (wstep c (close_current c (ps_ic p) s) (WPreparedFrame (ps_ty p) fr)) as [e1 s2] eqn:E.
      intros H. inversion H; subst e1 s2 ca'. clear H.
      eapply wstep_inv; [apply close_current_Inv, HI|exact E].
Qed.

(* ====================================================================== *)
(* Part 4: whole programs *)

Definition cops_wf (ops:list cop) : bool := forallb cop_wf ops.

Lemma crun_cons c st o r :
  crun c st (o :: r) =
  (let st1 := snd (cstep c st o) in
   ((fst (cstep c st o), N.of_nat (length (evs (fst st1)))) :: fst (crun c st1 r), snd (crun c st1 r))).
Proof.
  cbn [crun]. destruct (cstep c st o) as [e st1]. cbn [fst snd]. destruct (crun c st1 r). reflexivity.
Qed.

(* the final log extends the initial one, and the invariant is kept *)
Lemma crun_ext c ops : forall st, Inv c (fst st) -> cops_wf ops = true ->
  Inv c (fst (snd (crun c st ops))) /\ exists t, evs (fst (snd (crun c st ops))) = evs (fst st) ++ t.
Proof.
  induction ops as [|o r IH]; intros [s ca] HI Hwf.
  - split; [exact HI|]. exists []. cbn. rewrite app_nil_r. reflexivity.
  - cbn [cops_wf forallb] in Hwf. apply andb_true_iff in Hwf. destruct Hwf as [Ho Hr].
    rewrite crun_cons. cbv zeta. cbn [snd fst].
    destruct (cstep c (s, ca) o) as [e [s1 ca1]] eqn:E. cbn [snd fst] in *.
    destruct (cstep_CS _ _ _ _ _ _ _ HI Ho E) as [(d & Hd & _) HI1].
    destruct (IH (s1, ca1) HI1 Hr) as [HI2 (t & Ht)]. split; [exact HI2|].
    exists (rev d ++ t). cbn [fst] in Ht. rewrite Ht, (evs_ext _ _ _ Hd), app_assoc. reflexivity.
Qed.

(* the walker of the correspondence check, from any state satisfying the invariant; [L] is the
   final log (possibly followed by more) *)
Lemma crun_walk c ops : forall st tl, Inv c (fst st) -> cops_wf ops = true ->
  C20.data_writes_held (held (fst st)) (N.of_nat (length (evs (fst st))))
    (combine ops (map snd (fst (crun c st ops))))
    (evs (fst (snd (crun c st ops))) ++ tl) = true.
Proof.
  induction ops as [|o r IH]; intros [s ca] tl HI Hwf; [reflexivity|].
  cbn [cops_wf forallb] in Hwf. apply andb_true_iff in Hwf. destruct Hwf as [Ho Hr].
  rewrite crun_cons. cbv zeta. cbn [snd fst].
  destruct (cstep c (s, ca) o) as [e [s1 ca1]] eqn:E. cbn [snd fst map combine] in *.
  destruct (cstep_CS _ _ _ _ _ _ _ HI Ho E) as [(d & Hd & Hha & Hww) HI1].
  destruct (crun_ext c r (s1, ca1) HI1 Hr) as [_ (t & Ht)]. cbn [fst] in Ht.
  pose proof (IH (s1, ca1) tl HI1 Hr) as HIH. cbn [fst] in HIH.
  cbn [C20.data_writes_held].
  assert (Hmine : firstn (N.to_nat (N.of_nat (length (evs s1)) - N.of_nat (length (evs s))))
                    (skipn (N.to_nat (N.of_nat (length (evs s))))
                       (evs (fst (snd (crun c (s1, ca1) r))) ++ tl)) = rev d).
  { rewrite Ht, (evs_ext _ _ _ Hd), <- !app_assoc, Nnat.Nat2N.id.
    rewrite skipn_app, skipn_all, Nat.sub_diag. cbn [skipn Datatypes.app].
    rewrite app_length.
    replace (N.to_nat (N.of_nat (length (evs s) + length (rev d)) - N.of_nat (length (evs s))))
      with (length (rev d)) by lia.
    rewrite firstn_app, firstn_all, Nat.sub_diag. cbn [firstn]. apply app_nil_r. }
  rewrite Hmine, Hha, HIH, andb_true_r.
  destruct (cop_exempt o) eqn:Hex.
  - destruct o as [w|p]; [destruct w; try discriminate Hex|]; reflexivity.
  - specialize (Hww eq_refl). destruct o as [w|p]; [destruct w; try discriminate Hex|discriminate Hex]; exact Hww.
Qed.

(* ---- the theorems ---- *)
Section Programs.
  Variables (c:wcfg) (ks:list bytes) (fa:option (nat * fkind)).

  (* exactly what clause 86 of Cases.C20.spec evaluates, on the model's own run: the case's ops
     paired with the cumulative event counts, walked over the final log *)
  Theorem crun_data_writes_held_gen : forall ops, cops_wf ops = true ->
    let r := crun c (init_wst c ks fa, []) ops in
    C20.data_writes_held (negb (w_pooled c)) 0 (combine ops (map snd (fst r))) (evs (fst (snd r))) = true.
  Proof.
    intros ops Hwf r.
    pose proof (crun_walk c ops (init_wst c ks fa, []) [] (init_inv c ks fa) Hwf) as H.
    rewrite app_nil_r in H. exact H.
  Qed.

  Theorem crun_data_writes_held : forall ops, w_pooled c = true -> cops_wf ops = true ->
    let r := crun c (init_wst c ks fa, []) ops in
    C20.data_writes_held false 0 (combine ops (map snd (fst r))) (evs (fst (snd r))) = true.
  Proof.
    intros ops Hp Hwf. pose proof (crun_data_writes_held_gen ops Hwf) as H. rewrite Hp in H. exact H.
  Qed.

  (* every state reachable by [crun] satisfies the invariant: the per-step theorems apply *)
  Theorem crun_reach_inv : forall ops, cops_wf ops = true ->
    Inv c (fst (snd (crun c (init_wst c ks fa, []) ops))).
  Proof. intros ops Hwf. apply crun_ext; [apply init_inv|exact Hwf]. Qed.

  (* ... per op, after any program (WritePreparedMessage included) *)
  Section Reach.
    Variable ops : list cop.
    Hypothesis Hwf : cops_wf ops = true.
    Let s' := fst (snd (crun c (init_wst c ks fa, []) ops)).

    Theorem crun_step_writes_while_held : forall o e s2,
      is_msg_op o = true -> wstep c s' o = (e, s2) ->
      evs s2 = evs s' ++ appended s' s2 /\
      C20.writes_while_held (held s') (appended s' s2) = (true, held s2) /\
      C20.held_after (held s') (appended s' s2) = held s2.
    Proof. intros o e s2. apply wstep_writes_while_held, crun_reach_inv, Hwf. Qed.

    Theorem crun_step_writes_after_get : forall o e s2,
      w_pooled c = true -> is_msg_op o = true -> wstep c s' o = (e, s2) ->
      forall pre x post, evs s2 = pre ++ x :: post -> (length (evs s') <= length pre)%nat -> is_wr x = true ->
        exists a b, pre = a ++ TGet :: b /\ pool_evs b = [].
    Proof. intros o e s2 Hp. apply (wstep_writes_after_get c s' o e s2 Hp), crun_reach_inv, Hwf. Qed.

    Theorem crun_prepared_writes_while_held : forall ca p e s2 ca2,
      cstep c (s', ca) (CPrepared p) = (e, (s2, ca2)) ->
      let s1 := close_current c (ps_ic p) s' in
      (cur s' = None -> s1 = s') /\
      exists own, appended s' s2 = appended s' s1 ++ own /\ tr_only own = true /\
        C20.writes_while_held (held s') (appended s' s1) = (true, held s2) /\
        C20.held_after (held s') (appended s' s2) = held s2.
    Proof. intros ca p e s2 ca2. apply cstep_prepared_writes_while_held, crun_reach_inv, Hwf. Qed.
  End Reach.
End Programs.

(* in the words of the correspondence check: on the model's own observation of any pooled case,
   clause 86 of [Cases.C20.spec] is never raised *)
Theorem run_wmodel_data_writes_held (k:wcase) :
  w_pooled (wk_cfg k) = true -> cops_wf (wk_ops k) = true ->
  C20.data_writes_held false 0 (combine (wk_ops k) (map snd (fst (run_wmodel k)))) (evs (snd (run_wmodel k))) = true.
Proof.
  intros Hp Hwf. pose proof (crun_data_writes_held (wk_cfg k) (wk_keys k) (wk_fail k) (wk_ops k) Hp Hwf) as H.
  cbv zeta in H. unfold run_wmodel.
  destruct (crun (wk_cfg k) (init_wst (wk_cfg k) (wk_keys k) (wk_fail k), []) (wk_ops k)) as [es [s ca]].
  exact H.
Qed.

(* ---- plain write programs ([wrun]) ---- *)
(* cumulative event counts after each op *)
Fixpoint wcounts (c:wcfg) (s:wst) (ops:list wop) : list N :=
  match ops with
  | [] => []
  | o :: r => let s1 := snd (wstep c s o) in N.of_nat (length (evs s1)) :: wcounts c s1 r
  end.

Lemma crun_COp c ops : forall st,
  fst (snd (crun c st (map COp ops))) = snd (wrun c (fst st) ops) /\
  map snd (fst (crun c st (map COp ops))) = wcounts c (fst st) ops.
Proof.
  induction ops as [|o r IH]; intros [s ca]; [split; reflexivity|].
  cbn [map]. rewrite crun_cons. cbn [fst]. rewrite wrun_snd_cons. cbv zeta. cbn [cstep wcounts].
  destruct (wstep c s o) as [e s1]. cbn [fst snd map].
  destruct (IH (s1, ca)) as [Ha Hb]. cbn [fst] in Ha, Hb. rewrite Ha, Hb. split; reflexivity.
Qed.

Definition no_prepared_frame (ops:list wop) : bool :=
  forallb (fun o => match o with WPreparedFrame _ _ => false | _ => true end) ops.

Lemma cops_wf_COp ops : cops_wf (map COp ops) = no_prepared_frame ops.
Proof.
  unfold cops_wf, no_prepared_frame. induction ops as [|o r IH]; [reflexivity|].
  cbn [map forallb]. rewrite IH. destruct o; reflexivity.
Qed.

Section WPrograms.
  Variables (c:wcfg) (ks:list bytes) (fa:option (nat * fkind)) (ops:list wop).
  Let s0 := init_wst c ks fa.
  Let s' := snd (wrun c s0 ops).

  Theorem wrun_data_writes_held : w_pooled c = true -> no_prepared_frame ops = true ->
    C20.data_writes_held false 0 (combine (map COp ops) (wcounts c s0 ops)) (evs s') = true.
  Proof.
    intros Hp Hwf. rewrite <- cops_wf_COp in Hwf.
    pose proof (crun_data_writes_held c ks fa (map COp ops) Hp Hwf) as H. cbv zeta in H.
    match type of H with context [crun c ?st _] => destruct (crun_COp c ops st) as [Ha Hb] end.
    cbn [fst] in Ha, Hb. rewrite Ha, Hb in H. exact H.
  Qed.

  (* a program made of message-writer ops only: the whole log keeps every transport write
     inside a Get..Put bracket *)
  Theorem wrun_all_writes_inside :
    forallb is_msg_op ops = true ->
    wh_run (negb (w_pooled c)) (evs s') = Some (held s').
  Proof.
    intros Hall. subst s'.
    assert (G : forall l s, Inv c s -> forallb is_msg_op l = true -> WH s (snd (wrun c s l))).
    { induction l as [|o r IH]; intros s HI Hl; [apply WH_refl|].
      cbn [forallb] in Hl. apply andb_true_iff in Hl. destruct Hl as [Ho Hr].
      rewrite wrun_snd_cons. destruct (wstep c s o) as [e s1] eqn:E. cbn [snd].
      eapply WH_trans; [eapply wstep_WH; eauto|]. apply IH; [eapply wstep_inv; eauto|exact Hr]. }
    destruct (G ops s0 (init_inv c ks fa) Hall) as (d & Hr & Hw).
    subst s0. cbn [init_wst revs held] in Hr, Hw. rewrite app_nil_r in Hr.
    rewrite evs_rev, Hr. exact Hw.
  Qed.

  (* reachable states satisfy the invariant of the per-step theorems *)
  Theorem wrun_step_writes_while_held : forall o e s2,
    is_msg_op o = true -> wstep c s' o = (e, s2) ->
    evs s2 = evs s' ++ appended s' s2 /\
    C20.writes_while_held (held s') (appended s' s2) = (true, held s2) /\
    C20.held_after (held s') (appended s' s2) = held s2.
  Proof. intros o e s2. apply wstep_writes_while_held, reach_inv. Qed.

  Theorem wrun_step_writes_after_get : forall o e s2,
    w_pooled c = true -> is_msg_op o = true -> wstep c s' o = (e, s2) ->
    forall pre x post, evs s2 = pre ++ x :: post -> (length (evs s') <= length pre)%nat -> is_wr x = true ->
      exists a b, pre = a ++ TGet :: b /\ pool_evs b = [].
  Proof. intros o e s2 Hp. apply (wstep_writes_after_get c s' o e s2 Hp), reach_inv. Qed.
End WPrograms.

(* ====================================================================== *)
(* the hypotheses are forced *)

(* (a) the exemption of WriteControl is needed: a control frame is written between messages,
   while the connection holds no buffer *)
Definition pw_cfg : wcfg := {| w_server := true; w_bufsize := 18; w_pooled := true; w_negotiated := false |}.
Example control_writes_outside :
  let s := snd (wrun pw_cfg (init_wst pw_cfg [] None) [WControl 9 [1] 0]) in
  evs s = [TSetDL 0; TWrite [137; 1; 1]] /\ wh_run false (evs s) = None.
Proof. vm_compute. split; reflexivity. Qed.

(* (b) [cops_wf]: the bare second half of a prepared send is not exempted by the walker *)
Example raw_prepared_frame_fails :
  let ops := [COp (WPreparedFrame 1 [129; 0])] in
  let r := crun pw_cfg (init_wst pw_cfg [] None, []) ops in
  C20.data_writes_held false 0 (combine ops (map snd (fst r))) (evs (fst (snd r))) = false.
Proof. vm_compute. reflexivity. Qed.

(* (c) without a pool the connection owns its buffer from the start: the walk must start with
   [negb (w_pooled c)], not [false] *)
Definition pw_cfg_np : wcfg := {| w_server := true; w_bufsize := 18; w_pooled := false; w_negotiated := false |}.
Example unpooled_starts_held :
  let ops := [COp (WMessage 1 [7] [] [] [])] in
  let r := crun pw_cfg_np (init_wst pw_cfg_np [] None, []) ops in
  C20.data_writes_held false 0 (combine ops (map snd (fst r))) (evs (fst (snd r))) = false /\
  C20.data_writes_held true 0 (combine ops (map snd (fst r))) (evs (fst (snd r))) = true.
Proof. vm_compute. split; reflexivity. Qed.

(* ====================================================================== *)
(* a pooled connection, a fragmented message, an interleaved WriteControl, a transport fault *)
Definition pw_ops : list cop :=
  [COp (WNext 2 []); COp (WWrite [1;2;3;4;5;6] []); COp (WControl 9 [9] 0);
   COp (WWrite [7;8;9;10;11] []); COp (WClose []); COp (WMessage 1 [7] [] [] [])].

Example pooled_fragmented_fault_run :
  let r := crun pw_cfg (init_wst pw_cfg [] (Some (5%nat, FShort 3)), []) pw_ops in
  map fst (fst r) = [None; None; None; Some (WTransport false); Some (WTransport false); Some (WTransport false)] /\
  map snd (fst r) = [1; 3; 5; 8; 8; 8] /\
  evs (fst (snd r)) =
    [TGet; TSetDL 0; TWrite [2;4;1;2;3;4]; TSetDL 0; TWrite [137;1;9];
     TSetDL 0; TWriteFail [0;4;5]; TPut] /\
  held (fst (snd r)) = false /\
  C20.data_writes_held false 0 (combine pw_ops (map snd (fst r))) (evs (fst (snd r))) = true.
Proof. vm_compute. repeat split. Qed.

(* the same instance through the theorem *)
Example pooled_fragmented_fault_thm :
  let r := crun pw_cfg (init_wst pw_cfg [] (Some (5%nat, FShort 3)), []) pw_ops in
  C20.data_writes_held false 0 (combine pw_ops (map snd (fst r))) (evs (fst (snd r))) = true.
Proof. apply crun_data_writes_held; reflexivity. Qed.

(* a prepared send that closes the writer the application left open: the implicit close flushes
   the final frame and returns the buffer; the prepared frame and the control frame that follow
   are written while no buffer is held (they are exempt) *)
Definition pw_ops2 : list cop :=
  [COp (WNext 2 []); COp (WWrite [1;2] []);
   CPrepared {| ps_id := 0%nat; ps_ty := 1; ps_data := [5]; ps_ic := []; ps_keys := []; ps_wc := []; ps_cc := [] |};
   COp (WControl 9 [] 0)].
Example prepared_implicit_close_run :
  let r := crun pw_cfg (init_wst pw_cfg [] None, []) pw_ops2 in
  map snd (fst r) = [1; 1; 6; 8] /\
  evs (fst (snd r)) =
    [TGet; TSetDL 0; TWrite [130;2;1;2]; TPut; TSetDL 0; TWrite [129;1;5]; TSetDL 0; TWrite [137;0]] /\
  C20.data_writes_held false 0 (combine pw_ops2 (map snd (fst r))) (evs (fst (snd r))) = true.
Proof. vm_compute. repeat split. Qed.

(* a client (masked frames), same program and fault *)
Definition pw_cfg_cl : wcfg := {| w_server := false; w_bufsize := 18; w_pooled := true; w_negotiated := false |}.
Example pooled_client_fault_run :
  let r := crun pw_cfg_cl (init_wst pw_cfg_cl [[1;2;3;4];[5;6;7;8];[9;9;9;9]] (Some (5%nat, FShort 3)), []) pw_ops in
  evs (fst (snd r)) =
    [TGet; TSetDL 0; TWrite [2;132;1;2;3;4;0;0;0;0]; TSetDL 0; TWrite [137;129;5;6;7;8;12];
     TSetDL 0; TWriteFail [0;132;9]; TPut] /\
  C20.data_writes_held false 0 (combine pw_ops (map snd (fst r))) (evs (fst (snd r))) = true.
Proof. vm_compute. split; reflexivity. Qed.

Print Assumptions wstep_WH.
Print Assumptions run_wmodel_data_writes_held.
Print Assumptions wstep_writes_while_held.
Print Assumptions wstep_writes_after_get.
Print Assumptions cstep_prepared_WH.
Print Assumptions cstep_prepared_writes_while_held.
Print Assumptions crun_step_writes_while_held.
Print Assumptions crun_step_writes_after_get.
Print Assumptions crun_prepared_writes_while_held.
Print Assumptions crun_data_writes_held_gen.
Print Assumptions crun_data_writes_held.
Print Assumptions wrun_data_writes_held.
Print Assumptions wrun_all_writes_inside.
Print Assumptions wrun_step_writes_while_held.
Print Assumptions wrun_step_writes_after_get.
Print Assumptions writes_inside_iff.
Print Assumptions held_after_unmatched_get.
