(* Fault-free calculus of the write path: on a state with no sticky error and no fault plan
   every primitive of Model/Writer.v is a total function whose effect on the projections that
   matter (wire, log, writeErr, key oracle, current writer) can be written down exactly. *)
Require Import WS.Base.Bytes WS.gen.Consts WS.Spec.Frame WS.Proofs.FrameP WS.Model.Writer.
From RecordUpdate Require Import RecordSet.
Import RecordSetNotations.
Require Import WS.Proofs.WWBase WS.Proofs.WWInv.
Ltac Zify.zify_post_hook ::= Z.div_mod_to_equations.

(* the part of the state that transport operations never touch *)
Definition core (s:wst) :=
  (held s, cur s, cur_flate s, fl s, ended s, Writer.app s, app_flate s, deadline s, wcomp s, level s, nextid s).

Definition key0 : bytes := [0;0;0;0].
(* the key the next masked frame gets: the oracle's head, or the zero key the model pads with *)
Definition next_key (s:wst) : bytes := hd key0 (keys s).

Lemma len4_key0 : len4 key0.
Proof. reflexivity. Qed.

Lemma next_key_len4 s : Forall len4 (keys s) -> len4 (next_key s).
Proof. unfold next_key. intros H. destruct (keys s); [apply len4_key0|inversion H; assumption]. Qed.

Lemma tl_len4 (l:list bytes) : Forall len4 l -> Forall len4 (tl l).
Proof. intros H. destruct l; [constructor|inversion H; assumption]. Qed.

Lemma next_fault_nf s : fail_at s = None -> next_fault s = (None, s <| tops := S (tops s) |>).
Proof. unfold next_fault. wsimpl. intros ->. reflexivity. Qed.

Definition tick (e:tev) (s:wst) : wst := log e (s <| tops := S (tops s) |>).

Lemma t_setdl_nf d s : fail_at s = None -> t_setdl d s = (None, tick (TSetDL d) s).
Proof. intros H. unfold t_setdl. rewrite (next_fault_nf s H). reflexivity. Qed.

Lemma t_write_nf b s : fail_at s = None -> t_write b s = (None, tick (TWrite b) s).
Proof. intros H. unfold t_write. rewrite (next_fault_nf s H). reflexivity. Qed.

Lemma tick_proj e s :
  core (tick e s) = core s /\ werr (tick e s) = werr s /\ keys (tick e s) = keys s /\
  fail_at (tick e s) = fail_at s /\ revs (tick e s) = e :: revs s /\ oracle_short (tick e s) = oracle_short s.
Proof. unfold tick, log, core. wsimpl. repeat split; reflexivity. Qed.

Lemma pop_key_proj s :
  fst (pop_key s) = next_key s /\ core (snd (pop_key s)) = core s /\ werr (snd (pop_key s)) = werr s /\
  fail_at (snd (pop_key s)) = fail_at s /\ revs (snd (pop_key s)) = revs s /\
  keys (snd (pop_key s)) = tl (keys s).
Proof.
  unfold pop_key, next_key, core. destruct (keys s) as [|k r] eqn:E; cbn [fst snd hd tl]; wsimpl;
    rewrite ?E; repeat split; reflexivity.
Qed.

(* Conn.write on a live, fault-free connection *)
Lemma conn_write_nf ft dl masked mk buf1 s :
  werr s = None -> fail_at s = None ->
  exists s', conn_write ft dl masked mk buf1 s = (None, s') /\
    core s' = core s /\ fail_at s' = None /\
    werr s' = (if ft =? c_CloseMessage then Some WCloseSent else None) /\
    keys s' = (if masked then tl (keys s) else keys s) /\
    revs s' = (match buf1 with [] => [] | _ => [TWrite buf1] end)
              ++ TWrite (mk (if masked then next_key s else [])) :: TSetDL dl :: revs s.
Proof.
  intros HW HF. unfold conn_write. rewrite HW, (t_setdl_nf dl s HF).
  destruct (tick_proj (TSetDL dl) s) as (A1 & A2 & A3 & A4 & A5 & _).
  set (s1 := tick (TSetDL dl) s) in *.
  assert (K : exists s2, keyed_write masked mk s1 = (None, s2) /\ core s2 = core s /\ fail_at s2 = None /\
            werr s2 = None /\ keys s2 = (if masked then tl (keys s) else keys s) /\
            revs s2 = TWrite (mk (if masked then next_key s else [])) :: TSetDL dl :: revs s).
  { unfold keyed_write. destruct masked.
    - pose proof (pop_key_proj s1) as P. destruct (pop_key s1) as [k s1']. cbn [fst snd] in P.
      destruct P as (P0 & P1 & P2 & P3 & P4 & P5).
      rewrite t_write_nf by congruence. eexists. split; [reflexivity|].
      destruct (tick_proj (TWrite (mk k)) s1') as (B1 & B2 & B3 & B4 & B5 & _).
      rewrite B1, B2, B3, B4, B5, P0, P1, P2, P3, P4, P5, A1, A2, A3, A4, A5.
      unfold next_key. rewrite A3. auto.
    - rewrite t_write_nf by congruence. eexists. split; [reflexivity|].
      destruct (tick_proj (TWrite (mk [])) s1) as (B1 & B2 & B3 & B4 & B5 & _).
      rewrite B1, B2, B3, B4, B5. repeat split; congruence. }
  destruct K as (s2 & K0 & K1 & K2 & K3 & K4 & K5). rewrite K0.
  assert (Fin : forall s3, core s3 = core s -> fail_at s3 = None -> werr s3 = None ->
            core (if ft =? c_CloseMessage then write_fatal WCloseSent s3 else s3) = core s /\
            fail_at (if ft =? c_CloseMessage then write_fatal WCloseSent s3 else s3) = None /\
            werr (if ft =? c_CloseMessage then write_fatal WCloseSent s3 else s3)
              = (if ft =? c_CloseMessage then Some WCloseSent else None) /\
            keys (if ft =? c_CloseMessage then write_fatal WCloseSent s3 else s3) = keys s3 /\
            revs (if ft =? c_CloseMessage then write_fatal WCloseSent s3 else s3) = revs s3).
  { intros s3 C1 C2 C3. destruct (ft =? c_CloseMessage); [|auto].
    unfold write_fatal. rewrite C3. unfold core in *. wsimpl. auto. }
  destruct buf1 as [|x b1].
  - eexists. split; [reflexivity|]. destruct (Fin s2 K1 K2 K3) as (F1 & F2 & F3 & F4 & F5).
    rewrite F1, F2, F3, F4, F5, K4, K5. auto.
  - rewrite t_write_nf by exact K2.
    destruct (tick_proj (TWrite (x :: b1)) s2) as (B1 & B2 & B3 & B4 & B5 & _).
    eexists. split; [reflexivity|].
    destruct (Fin (tick (TWrite (x :: b1)) s2)) as (F1 & F2 & F3 & F4 & F5); try congruence.
    rewrite F1, F2, F3, F4, F5, B3, B5, K4, K5. auto.
Qed.

(* ------------------------------------------------------------------------------------------ *)
(* the wire as a function of the log                                                          *)
(* ------------------------------------------------------------------------------------------ *)
Lemma wire_ext s s' d : revs s' = d ++ revs s -> wire s' = wire s ++ flat_map pay (rev d).
Proof. intros H. rewrite !wire_revs, H, rev_app_distr, flat_map_app. reflexivity. Qed.

Lemma evs_ext s s' d : revs s' = d ++ revs s -> evs s' = evs s ++ rev d.
Proof. intros H. unfold evs, rev'. rewrite <- !rev_alt, H, rev_app_distr. reflexivity. Qed.

Lemma core_cur s s' : core s' = core s -> cur s' = cur s. Proof. unfold core; congruence. Qed.
Lemma core_deadline s s' : core s' = core s -> deadline s' = deadline s. Proof. unfold core; congruence. Qed.
Lemma core_wcomp s s' : core s' = core s -> wcomp s' = wcomp s. Proof. unfold core; congruence. Qed.
Lemma core_level s s' : core s' = core s -> level s' = level s. Proof. unfold core; congruence. Qed.
Lemma core_held s s' : core s' = core s -> held s' = held s. Proof. unfold core; congruence. Qed.
Lemma core_fl s s' : core s' = core s -> fl s' = fl s. Proof. unfold core; congruence. Qed.
Lemma core_cur_flate s s' : core s' = core s -> cur_flate s' = cur_flate s. Proof. unfold core; congruence. Qed.
Lemma core_app s s' : core s' = core s -> Writer.app s' = Writer.app s. Proof. unfold core; congruence. Qed.
Lemma core_app_flate s s' : core s' = core s -> app_flate s' = app_flate s. Proof. unfold core; congruence. Qed.

Lemma cw_wire s s' (buf1 b:bytes) dl :
  revs s' = (match buf1 with [] => [] | _ => [TWrite buf1] end) ++ TWrite b :: TSetDL dl :: revs s ->
  wire s' = wire s ++ b ++ buf1.
Proof.
  intros H. rewrite (wire_ext s s' ((match buf1 with [] => [] | _ => [TWrite buf1] end) ++ [TWrite b; TSetDL dl])).
  - f_equal. destruct buf1; cbn [rev flat_map pay List.app]; rewrite ?app_nil_r; reflexivity.
  - rewrite H, <- app_assoc. reflexivity.
Qed.

Definition aux (s:wst) := (fl s, deadline s, Writer.app s, app_flate s, wcomp s, level s).
Lemma aux_of_core s s' : core s' = core s -> aux s' = aux s.
Proof. unfold core, aux. congruence. Qed.
Lemma aux_end_message c e m s : aux (end_message c e m s) = aux s.
Proof. unfold end_message. destruct (m_err m); [reflexivity|]. destruct (w_pooled c); reflexivity. Qed.
Lemma aux_fl s s' : aux s' = aux s -> fl s' = fl s. Proof. unfold aux; congruence. Qed.
Lemma aux_deadline s s' : aux s' = aux s -> deadline s' = deadline s. Proof. unfold aux; congruence. Qed.
Lemma aux_app s s' : aux s' = aux s -> Writer.app s' = Writer.app s. Proof. unfold aux; congruence. Qed.
Lemma aux_app_flate s s' : aux s' = aux s -> app_flate s' = app_flate s. Proof. unfold aux; congruence. Qed.
Lemma aux_wcomp s s' : aux s' = aux s -> wcomp s' = wcomp s. Proof. unfold aux; congruence. Qed.
Lemma aux_level s s' : aux s' = aux s -> level s' = level s. Proof. unfold aux; congruence. Qed.

(* ------------------------------------------------------------------------------------------ *)
(* flushFrame                                                                                 *)
(* ------------------------------------------------------------------------------------------ *)
Definition role_mkey (c:wcfg) (s:wst) : option bytes := if w_server c then None else Some (next_key s).

Lemma flush_frame_nf c final extra m s :
  werr s = None -> fail_at s = None -> m_err m = None ->
  is_control_ty (m_ftype m) && (negb final || (c_maxControlFramePayloadSize <? blen (m_buf m) + blen extra)) = false ->
  (w_server c = false -> extra = []) ->
  exists s', flush_frame c final extra m s = (None, s') /\
    fail_at s' = None /\
    werr s' = (if m_ftype m =? c_CloseMessage then Some WCloseSent else None) /\
    keys s' = (if w_server c then keys s else tl (keys s)) /\
    cur s' = (if final then None
              else Some (m <| m_compress := false |> <| m_buf := [] |> <| m_ftype := c_continuationFrame |>)) /\
    (final = false -> cur_flate s' = cur_flate s) /\ (final = true -> cur_flate s' = false) /\
    aux s' = aux s /\
    wire s' = wire s ++ encode_frame (mkf final (m_ftype m) (if m_compress m then 4 else 0)
                                          (role_mkey c s) (m_buf m ++ extra)).
Proof.
  intros HW HF HM HC HX. unfold flush_frame. cbv zeta. rewrite HC.
  rewrite b0_arith.
  set (m1 := m <| m_compress := false |>).
  set (s1 := s <| cur := Some m1 |>).
  assert (S1 : werr s1 = None /\ fail_at s1 = None /\ keys s1 = keys s /\ wire s1 = wire s /\
               aux s1 = aux s /\ cur_flate s1 = cur_flate s /\ deadline s1 = deadline s)
    by (unfold s1, wire, evs, aux; wsimpl; auto 10).
  destruct S1 as (S1w & S1f & S1k & S1wi & S1a & S1cf & S1d).
  assert (Merr1 : m_err m1 = None) by exact HM.
  assert (Common : forall (masked:bool) (mk:bytes -> bytes) (buf1:bytes) (s2:wst),
    mk (if masked then next_key s1 else []) ++ buf1 =
      encode_frame (mkf final (m_ftype m) (if m_compress m then 4 else 0) (role_mkey c s) (m_buf m ++ extra)) ->
    masked = negb (w_server c) ->
    core s2 = core s1 -> fail_at s2 = None ->
    werr s2 = (if m_ftype m1 =? c_CloseMessage then Some WCloseSent else None) ->
    keys s2 = (if masked then tl (keys s1) else keys s1) ->
    revs s2 = (match buf1 with [] => [] | _ => [TWrite buf1] end)
              ++ TWrite (mk (if masked then next_key s1 else [])) :: TSetDL (deadline s1) :: revs s1 ->
    exists s', (if final then (@None werror, end_message c WWriteClosed m1 s2)
                else (None, s2 <| cur := Some (m1 <| m_buf := [] |> <| m_ftype := c_continuationFrame |>) |>))
               = (None, s') /\
    fail_at s' = None /\
    werr s' = (if m_ftype m =? c_CloseMessage then Some WCloseSent else None) /\
    keys s' = (if w_server c then keys s else tl (keys s)) /\
    cur s' = (if final then None
              else Some (m <| m_compress := false |> <| m_buf := [] |> <| m_ftype := c_continuationFrame |>)) /\
    (final = false -> cur_flate s' = cur_flate s) /\ (final = true -> cur_flate s' = false) /\
    aux s' = aux s /\
    wire s' = wire s ++ encode_frame (mkf final (m_ftype m) (if m_compress m then 4 else 0)
                                          (role_mkey c s) (m_buf m ++ extra))).
  { intros masked mk buf1 s2 Henc Hmasked C1 C2 C3 C4 C5.
    assert (W2 : wire s2 = wire s ++ encode_frame (mkf final (m_ftype m) (if m_compress m then 4 else 0)
                                                       (role_mkey c s) (m_buf m ++ extra))).
    { rewrite (cw_wire _ _ _ _ _ C5), S1wi, <- Henc. reflexivity. }
    assert (K2 : keys s2 = (if w_server c then keys s else tl (keys s))).
    { rewrite C4, S1k, Hmasked. destruct (w_server c); reflexivity. }
    change (m_ftype m1) with (m_ftype m) in C3.
    destruct final.
    - destruct (end_message_eff c WWriteClosed m1 s2 Merr1) as (E1&E2&E3&E4&E5&E6&E7).
      eexists. split; [reflexivity|].
      rewrite E1, E2, E4, E5, E6, E7, C2, C3, K2, W2, aux_end_message, (aux_of_core _ _ C1), S1a.
      repeat split; auto. intros X; discriminate X.
    - eexists. split; [reflexivity|].
      assert (A : aux (s2 <| cur := Some (m1 <| m_buf := [] |> <| m_ftype := c_continuationFrame |>) |>) = aux s2)
        by reflexivity.
      rewrite A, (aux_of_core _ _ C1), S1a. unfold wire, evs in *. wsimpl.
      rewrite C2, C3, K2, W2, (core_cur_flate _ _ C1), S1cf.
      repeat split; auto. intros X; discriminate X. }
  destruct (w_server c) eqn:ES.
  - match goal with |- context [conn_write ?a ?b ?c0 ?d ?e ?f] =>
      destruct (conn_write_nf a b c0 d e f S1w S1f) as (s2 & E & C1 & C2 & C3 & C4 & C5);
      rewrite E; refine (Common c0 d e s2 _ eq_refl C1 C2 C3 C4 C5) end.
    unfold role_mkey. rewrite ES.
    rewrite <- (frame_header_enc final _ (m_ftype m) None (m_buf m ++ extra) _ eq_refl).
    cbn [mbit wpay]. rewrite blen_app, <- app_assoc. reflexivity.
  - rewrite (HX eq_refl) in *.
    match goal with |- context [conn_write ?a ?b ?c0 ?d ?e ?f] =>
      destruct (conn_write_nf a b c0 d e f S1w S1f) as (s2 & E & C1 & C2 & C3 & C4 & C5);
      rewrite E; refine (Common c0 d e s2 _ eq_refl C1 C2 C3 C4 C5) end.
    unfold role_mkey. rewrite ES.
    rewrite <- (frame_header_enc final _ (m_ftype m) (Some (next_key s)) (m_buf m ++ []) _ eq_refl).
    cbn [mbit wpay]. unfold next_key. rewrite S1k. rewrite blen_app, !app_nil_r. reflexivity.
Qed.
