(* Prototype: RFC 1951 inflate in Gallina (puff.c structure). Design-round experiment. *)
From Coq Require Import List NArith Lia Bool.
Import ListNotations.
Open Scope N_scope.

Definition bytes := list N.

(* ---- bit stream, LSB first ---- *)
Fixpoint byte_bits (k:nat) (b:N) : list bool :=
  match k with O => [] | S k' => N.odd b :: byte_bits k' (N.div2 b) end.
Fixpoint bits_of (l:bytes) : list bool :=
  match l with [] => [] | b::r => byte_bits 8 b ++ bits_of r end.

Record bs := { bits : list bool; used : N }.   (* used = number of bits consumed so far *)

Definition getbit (s:bs) : option (bool * bs) :=
  match bits s with [] => None | b::r => Some (b, {| bits := r; used := used s + 1 |}) end.

(* read k bits as a number, LSB first *)
Fixpoint getbits (k:nat) (s:bs) : option (N * bs) :=
  match k with
  | O => Some (0, s)
  | S k' => match getbit s with None => None
            | Some (b, s1) => match getbits k' s1 with None => None
                              | Some (v, s2) => Some ((if b then 1 else 0) + 2*v, s2) end end
  end.

Fixpoint dropbits (k:nat) (s:bs) : option bs :=
  match k with O => Some s | S k' => match getbit s with None => None | Some (_, s1) => dropbits k' s1 end end.

Definition align (s:bs) : option bs := dropbits (N.to_nat ((8 - used s mod 8) mod 8)) s.

(* ---- canonical Huffman ---- *)
(* table: for each length 1..15, count; plus symbols sorted by (length, symbol) *)
Record huff := { counts : list N (* index 0..15 *); symbols : list N }.

Definition count_len (lens:list N) (l:N) : N := N.of_nat (length (filter (N.eqb l) lens)).
Fixpoint syms_of_len (lens:list N) (l:N) (i:N) : list N :=
  match lens with [] => [] | x::r => (if x =? l then [i] else []) ++ syms_of_len r l (i+1) end.
Definition lens15 : list N := map N.of_nat (seq 1 15).
Definition build (lens:list N) : huff :=
  {| counts := 0 :: map (count_len lens) lens15;
     symbols := flat_map (fun l => syms_of_len lens l 0) lens15 |}.

(* over-subscription / completeness check like puff: left = 1; for len: left<<=1; left -= count; <0 => bad *)
Fixpoint check_counts (cs:list N) (left:N) : option N :=
  match cs with [] => Some left
  | c::r => let l2 := 2*left in if l2 <? c then None else check_counts r (l2 - c) end.
Definition huff_ok (h:huff) : option N := check_counts (tl (counts h)) 1.

Fixpoint decode_go (cs:list N) (code first index:N) (h:huff) (s:bs) : option (N * bs) :=
  match cs with
  | [] => None
  | count::r =>
     match getbit s with None => None
     | Some (b, s1) =>
        let code := code + (if b then 1 else 0) in
        if code <? first + count then
           match nth_error (symbols h) (N.to_nat (index + (code - first))) with
           | Some sym => Some (sym, s1) | None => None end
        else decode_go r (2*code) (2*(first+count)) (index+count) h s1
     end
  end.
Definition decode (h:huff) (s:bs) : option (N * bs) := decode_go (tl (counts h)) 0 0 0 h s.

(* ---- tables ---- *)
Definition lbase : list N := [3;4;5;6;7;8;9;10;11;13;15;17;19;23;27;31;35;43;51;59;67;83;99;115;131;163;195;227;258].
Definition lext  : list nat := [0;0;0;0;0;0;0;0;1;1;1;1;2;2;2;2;3;3;3;3;4;4;4;4;5;5;5;5;0]%nat.
Definition dbase : list N := [1;2;3;4;5;7;9;13;17;25;33;49;65;97;129;193;257;385;513;769;1025;1537;2049;3073;4097;6145;8193;12289;16385;24577].
Definition dext  : list nat := [0;0;0;0;1;1;2;2;3;3;4;4;5;5;6;6;7;7;8;8;9;9;10;10;11;11;12;12;13;13]%nat.

(* copy len bytes from distance d; out is reversed output *)
Fixpoint copy_back (len:nat) (d:nat) (out:bytes) : option bytes :=
  match len with O => Some out
  | S l' => match nth_error out (d-1) with None => None | Some b => copy_back l' d (b::out) end end.

(* decode literal/length + distance codes until end of block *)
Fixpoint codes (fuel:nat) (lh dh:huff) (s:bs) (out:bytes) : option (bs * bytes) :=
  match fuel with O => None | S f =>
  match decode lh s with None => None
  | Some (sym, s1) =>
     if sym <? 256 then codes f lh dh s1 (sym::out)
     else if sym =? 256 then Some (s1, out)
     else let i := N.to_nat (sym - 257) in
       match nth_error lbase i, nth_error lext i with
       | Some lb, Some le =>
         match getbits le s1 with None => None | Some (ev, s2) =>
         let len := lb + ev in
         match decode dh s2 with None => None | Some (ds, s3) =>
         match nth_error dbase (N.to_nat ds), nth_error dext (N.to_nat ds) with
         | Some db, Some de =>
            match getbits de s3 with None => None | Some (dv, s4) =>
            match copy_back (N.to_nat len) (N.to_nat (db + dv)) out with None => None
            | Some out' => codes f lh dh s4 out' end end
         | _, _ => None end end end
       | _, _ => None end
  end end.

Definition fixed_l : huff := build (repeat 8 144 ++ repeat 9 112 ++ repeat 7 24 ++ repeat 8 8).
Definition fixed_d : huff := build (repeat 5 30).

Fixpoint getbytes (k:nat) (s:bs) (out:bytes) : option (bs * bytes) :=
  match k with O => Some (s, out) | S k' =>
    match getbits 8 s with None => None | Some (b, s1) => getbytes k' s1 (b::out) end end.

Definition stored (s:bs) (out:bytes) : option (bs * bytes) :=
  match align s with None => None | Some s1 =>
  match getbits 16 s1 with None => None | Some (len, s2) =>
  match getbits 16 s2 with None => None | Some (nlen, s3) =>
  if len + nlen =? 65535 then getbytes (N.to_nat len) s3 out else None end end end.

Definition clorder : list nat := [16;17;18;0;8;7;9;6;10;5;11;4;12;3;13;2;14;1;15]%nat.

Fixpoint set_nth (i:nat) (v:N) (l:list N) : list N :=
  match l, i with [], _ => [] | _::r, O => v::r | x::r, S i' => x :: set_nth i' v r end.

Fixpoint read_cl (n:nat) (ord:list nat) (s:bs) (acc:list N) : option (bs * list N) :=
  match n, ord with
  | O, _ => Some (s, acc)
  | S n', o::r => match getbits 3 s with None => None | Some (v, s1) => read_cl n' r s1 (set_nth o v acc) end
  | _, [] => None end.

(* read code lengths using the code-length code; acc is reversed *)
Fixpoint read_lens (fuel:nat) (h:huff) (want:nat) (s:bs) (acc:list N) : option (bs * list N) :=
  match fuel with O => None | S f =>
  if Nat.leb want (length acc) then (if Nat.eqb want (length acc) then Some (s, rev acc) else None) else
  match decode h s with None => None | Some (sym, s1) =>
    if sym <? 16 then read_lens f h want s1 (sym::acc)
    else if sym =? 16 then
      match acc with [] => None | prev::_ =>
        match getbits 2 s1 with None => None | Some (r, s2) => read_lens f h want s2 (repeat prev (3 + N.to_nat r) ++ acc) end end
    else if sym =? 17 then
        match getbits 3 s1 with None => None | Some (r, s2) => read_lens f h want s2 (repeat 0 (3 + N.to_nat r) ++ acc) end
    else
        match getbits 7 s1 with None => None | Some (r, s2) => read_lens f h want s2 (repeat 0 (11 + N.to_nat r) ++ acc) end
  end end.

Definition dynamic (fuel:nat) (s:bs) (out:bytes) : option (bs * bytes) :=
  match getbits 5 s with None => None | Some (hlit, s1) =>
  match getbits 5 s1 with None => None | Some (hdist, s2) =>
  match getbits 4 s2 with None => None | Some (hclen, s3) =>
  let nlen := (N.to_nat hlit + 257)%nat in let ndist := (N.to_nat hdist + 1)%nat in
  if (Nat.ltb 286 nlen || Nat.ltb 30 ndist)%bool then None else
  match read_cl (N.to_nat hclen + 4) clorder s3 (repeat 0 19) with None => None | Some (s4, cl) =>
  let clh := build cl in
  match huff_ok clh with None => None | Some _ =>
  match read_lens fuel clh (nlen + ndist) s4 [] with None => None | Some (s5, lens) =>
  let ll := firstn nlen lens in let dl := skipn nlen lens in
  if nth 256 ll 0 =? 0 then None else
  codes fuel (build ll) (build dl) s5 out
  end end end end end end.

Fixpoint blocks (nblocks:nat) (fuel:nat) (s:bs) (out:bytes) : option (bs * bytes) :=
  match nblocks with O => None | S nb =>
  match getbits 1 s with None => None | Some (final, s1) =>
  match getbits 2 s1 with None => None | Some (ty, s2) =>
  let r := if ty =? 0 then stored s2 out
           else if ty =? 1 then codes fuel fixed_l fixed_d s2 out
           else if ty =? 2 then dynamic fuel s2 out else None in
  match r with None => None | Some (s3, out') =>
    if final =? 1 then Some (s3, out') else blocks nb fuel s3 out' end end end end.

Definition inflate (l:bytes) : option bytes :=
  let b := bits_of l in
  let fuel := S (length b) in
  match blocks fuel fuel {| bits := b; used := 0 |} [] with
  | Some (_, out) => Some (rev out) | None => None end.
