(* RFC 1951 DEFLATE decoding, executable Gallina, in the structure of zlib's puff.c,
   with the accept/reject decisions of Go's compress/flate (the decoder gorilla/websocket uses).

   Definitions only; proofs are in InflateP.v, differential tests in InflateTest.v.

   Conventions:
   - input is a [bytes]; a byte >= 256 is not a byte and makes [inflate] answer [None];
   - bits are consumed LSB first inside each byte (RFC 1951 3.1.1);
   - Huffman codes are read MSB first, one bit at a time, canonical decoding from the
     per-length counts (puff.c [decode]);
   - output is accumulated newest-first, so a back-reference costs O(distance + length);
   - lists are reversed with the linear [rev_append _ []] (stdlib [rev] is quadratic);
   - every loop runs on fuel derived from the input length: no loop iteration consumes
     less than one bit, so [S (8 * length input)] iterations always suffice. *)
Require Import WS.Base.Bytes.

(* ---------- three-valued results ---------- *)
Inductive res (A:Type) : Type :=
| Ok (a:A)      (* success *)
| More          (* input exhausted: Go's io.ErrUnexpectedEOF *)
| Bad.          (* malformed: Go's flate.CorruptInputError *)
Arguments Ok {A} a.
Arguments More {A}.
Arguments Bad {A}.

Notation "'do' p <- r ; k" :=
  (match r with Ok p => k | More => More | Bad => Bad end)
  (at level 200, p pattern, r at level 100, k at level 200, right associativity).

(* ---------- bit reader, LSB first ---------- *)
Fixpoint byte_bits (k:nat) (b:N) : list bool :=
  match k with O => [] | S k' => N.odd b :: byte_bits k' (N.div2 b) end.

(* [cur] = bits of the current byte not yet consumed (at most 7); [rest] = bytes not yet touched *)
Record bs := mkbs { cur : list bool; rest : bytes }.

Definition getbit (s:bs) : res (bool * bs) :=
  match cur s with
  | b :: c => Ok (b, mkbs c (rest s))
  | [] => match rest s with
          | [] => More
          | x :: r => Ok (N.odd x, mkbs (byte_bits 7 (N.div2 x)) r)
          end
  end.

(* read k bits as a number, first bit read = least significant *)
Fixpoint getbits (k:nat) (s:bs) : res (N * bs) :=
  match k with
  | O => Ok (0, s)
  | S k' => do (b, s1) <- getbit s;
            do (v, s2) <- getbits k' s1;
            Ok ((if b:bool then 1 else 0) + 2 * v, s2)
  end.

(* ---------- canonical Huffman codes ---------- *)
(* counts: number of codes of each length 1..maxlen (trailing zero counts removed);
   symbols: symbols ordered by (length, symbol) *)
Record huff := mkhuff { counts : list N; symbols : list N }.

Definition count_len (lens:list N) (l:N) : N := N.of_nat (length (filter (N.eqb l) lens)).

Fixpoint syms_of_len (lens:list N) (l:N) (i:N) : list N :=
  match lens with
  | [] => []
  | x :: r => if x =? l then i :: syms_of_len r l (i+1) else syms_of_len r l (i+1)
  end.

Definition lens15 : list N := [1;2;3;4;5;6;7;8;9;10;11;12;13;14;15].

Fixpoint trim0 (l:list N) : list N :=
  match l with
  | [] => []
  | x :: r => match trim0 r with
              | [] => if x =? 0 then [] else [x]
              | r' => x :: r'
              end
  end.

Definition build (lens:list N) : huff :=
  {| counts := trim0 (map (count_len lens) lens15);
     symbols := flat_map (fun l => syms_of_len lens l 0) lens15 |}.

(* left := 1; per length: left := 2*left - count; negative = over-subscribed *)
Fixpoint kraft (cs:list N) (left:N) : option N :=
  match cs with
  | [] => Some left
  | c :: r => let l2 := 2 * left in if l2 <? c then None else kraft r (l2 - c)
  end.

(* Go's huffmanDecoder.init: accept the empty code (it fails when used), the degenerate
   single code of length one, and complete codes; reject everything else. *)
Definition huff_ok (h:huff) : bool :=
  match counts h with
  | [] => true
  | [1] => true
  | cs => match kraft cs 1 with Some 0 => true | _ => false end
  end.

Fixpoint decode_go (cs:list N) (code first index:N) (syms:list N) (s:bs) : res (N * bs) :=
  match cs with
  | [] => Bad
  | count :: r =>
      do (b, s1) <- getbit s;
      let code := code + (if b:bool then 1 else 0) in
      if code <? first + count then
        match nth_error syms (N.to_nat (index + (code - first))) with
        | Some sym => Ok (sym, s1)
        | None => Bad
        end
      else decode_go r (2 * code) (2 * (first + count)) (index + count) syms s1
  end.

Definition decode (h:huff) (s:bs) : res (N * bs) := decode_go (counts h) 0 0 0 (symbols h) s.

(* ---------- length / distance tables (RFC 1951 3.2.5): (base, extra bits) ---------- *)
Definition ltab : list (N * N) :=
  [(3,0);(4,0);(5,0);(6,0);(7,0);(8,0);(9,0);(10,0);(11,1);(13,1);(15,1);(17,1);
   (19,2);(23,2);(27,2);(31,2);(35,3);(43,3);(51,3);(59,3);(67,4);(83,4);(99,4);(115,4);
   (131,5);(163,5);(195,5);(227,5);(258,0)].
Definition dtab : list (N * N) :=
  [(1,0);(2,0);(3,0);(4,0);(5,1);(7,1);(9,2);(13,2);(17,3);(25,3);(33,4);(49,4);
   (65,5);(97,5);(129,6);(193,6);(257,7);(385,7);(513,8);(769,8);(1025,9);(1537,9);
   (2049,10);(3073,10);(4097,11);(6145,11);(8193,12);(12289,12);(16385,13);(24577,13)].

(* ---------- back references; [out] is the output so far, newest byte first ---------- *)
(* push [len] bytes cycling through [seg] (oldest first); [cur] is the current position in the cycle *)
Fixpoint copy_cyc (len:nat) (cur seg out:bytes) : bytes :=
  match len with
  | O => out
  | S l => match cur with
           | b :: c => copy_cyc l c seg (b :: out)
           | [] => match seg with
                   | b :: c => copy_cyc l c seg (b :: out)
                   | [] => out
                   end
           end
  end.

(* skipn with a binary count: no unary number of the size of the distance is ever built *)
Fixpoint skip_pos (p:positive) (l:bytes) : bytes :=
  match p with
  | xH => tl l
  | xO q => skip_pos q (skip_pos q l)
  | xI q => tl (skip_pos q (skip_pos q l))
  end.
Definition skipN (n:N) (l:bytes) : bytes := match n with N0 => l | Npos p => skip_pos p l end.

(* copy [len] bytes starting [d] bytes back (d >= 1).
   len <= d: the bytes out[d-len .. d-1] are simply put in front (cost: d - len steps + len);
   len > d : the last d bytes repeat cyclically (cost: d + len). *)
Definition copy_back (len d:N) (out:bytes) : option bytes :=
  if len <=? d then
    let n := N.to_nat len in
    let seg := firstn n (skipN (d - len) out) in
    if Nat.eqb (length seg) n then Some (seg ++ out) else None       (* distance too far back *)
  else
    let n := N.to_nat d in
    let seg := firstn n out in
    if Nat.eqb (length seg) n then let f := rev_append seg [] in Some (copy_cyc (N.to_nat len) f f out)
    else None.

(* ---------- compressed data of one block ---------- *)
Fixpoint codes (fuel:nat) (lh dh:huff) (s:bs) (out:bytes) : res (bs * bytes) :=
  match fuel with
  | O => Bad
  | S f =>
    do (sym, s1) <- decode lh s;
    if sym <? 256 then codes f lh dh s1 (sym :: out)
    else if sym =? 256 then Ok (s1, out)
    else
      match nth_error ltab (N.to_nat (sym - 257)) with
      | None => Bad                                     (* symbols 286, 287 *)
      | Some (lb, le) =>
        do (ev, s2) <- getbits (N.to_nat le) s1;
        do (ds, s3) <- decode dh s2;
        match nth_error dtab (N.to_nat ds) with
        | None => Bad                                   (* distance symbols 30, 31 *)
        | Some (db, de) =>
          do (dv, s4) <- getbits (N.to_nat de) s3;
          match copy_back (lb + ev) (db + dv) out with
          | None => Bad
          | Some out' => codes f lh dh s4 out'
          end
        end
      end
  end.

Definition fixed_l : huff := build (repeat 8 144 ++ repeat 9 112 ++ repeat 7 24 ++ repeat 8 8).
Definition fixed_d : huff := build (repeat 5 32).

(* ---------- stored block: discard the partial byte, LEN, NLEN, LEN bytes ---------- *)
Definition stored (s:bs) (out:bytes) : res (bs * bytes) :=
  match rest s with
  | l0 :: l1 :: n0 :: n1 :: r =>
      let len := l0 + 256 * l1 in
      let nlen := n0 + 256 * n1 in
      if len + nlen =? 65535 then
        match take (N.to_nat len) r with
        | Some (d, r') => Ok (mkbs [] r', rev_append d out)
        | None => More
        end
      else Bad
  | _ => More
  end.

(* ---------- dynamic block header ---------- *)
Definition clorder : list nat := [16;17;18;0;8;7;9;6;10;5;11;4;12;3;13;2;14;1;15]%nat.

Fixpoint set_nth (i:nat) (v:N) (l:list N) : list N :=
  match l, i with
  | [], _ => []
  | _ :: r, O => v :: r
  | x :: r, S i' => x :: set_nth i' v r
  end.

Fixpoint read_cl (n:nat) (ord:list nat) (s:bs) (acc:list N) : res (bs * list N) :=
  match n, ord with
  | O, _ => Ok (s, acc)
  | S n', o :: r => do (v, s1) <- getbits 3 s; read_cl n' r s1 (set_nth o v acc)
  | S _, [] => Bad
  end.

(* read [want] code lengths with the code-length code [h]; [n] = length acc; acc newest first *)
Fixpoint read_lens (fuel:nat) (h:huff) (want:nat) (s:bs) (n:nat) (acc:list N) : res (bs * list N) :=
  match fuel with
  | O => Bad
  | S f =>
    if Nat.leb want n then Ok (s, rev_append acc [])
    else
      do (sym, s1) <- decode h s;
      if sym <? 16 then read_lens f h want s1 (S n) (sym :: acc)
      else if sym =? 16 then
        match acc with
        | [] => Bad
        | prev :: _ =>
          do (r, s2) <- getbits 2 s1;
          let rep := (3 + N.to_nat r)%nat in
          if Nat.ltb want (n + rep) then Bad
          else read_lens f h want s2 (n + rep)%nat (repeat prev rep ++ acc)
        end
      else if sym =? 17 then
        do (r, s2) <- getbits 3 s1;
        let rep := (3 + N.to_nat r)%nat in
        if Nat.ltb want (n + rep) then Bad
        else read_lens f h want s2 (n + rep)%nat (repeat 0 rep ++ acc)
      else
        do (r, s2) <- getbits 7 s1;
        let rep := (11 + N.to_nat r)%nat in
        if Nat.ltb want (n + rep) then Bad
        else read_lens f h want s2 (n + rep)%nat (repeat 0 rep ++ acc)
  end.

Definition dynamic (fuel:nat) (s:bs) (out:bytes) : res (bs * bytes) :=
  do (hlit, s1) <- getbits 5 s;
  do (hdist, s2) <- getbits 5 s1;
  do (hclen, s3) <- getbits 4 s2;
  let nlen := (N.to_nat hlit + 257)%nat in
  let ndist := (N.to_nat hdist + 1)%nat in
  if (Nat.ltb 286 nlen || Nat.ltb 30 ndist)%bool then Bad else
  do (s4, cl) <- read_cl (N.to_nat hclen + 4) clorder s3 (repeat 0 19);
  let clh := build cl in
  if negb (huff_ok clh) then Bad else
  do (s5, lens) <- read_lens (S (nlen + ndist)) clh (nlen + ndist) s4 0 [];
  let lh := build (firstn nlen lens) in
  let dh := build (skipn nlen lens) in
  if (huff_ok lh && huff_ok dh)%bool then codes fuel lh dh s5 out else Bad.

(* ---------- blocks ---------- *)
Definition header (s:bs) : res (bool * N * bs) :=
  do (fin, s1) <- getbit s;
  do (ty, s2) <- getbits 2 s1;
  Ok (fin, ty, s2).

(* one block: (BFINAL, state after, output after) *)
Definition block (fuel:nat) (s:bs) (out:bytes) : res (bool * bs * bytes) :=
  do (fin, ty, s1) <- header s;
  do (s2, out') <- (if ty =? 0 then stored s1 out
                    else if ty =? 1 then codes fuel fixed_l fixed_d s1 out
                    else if ty =? 2 then dynamic fuel s1 out
                    else Bad);
  Ok (fin, s2, out').

Fixpoint blocks (n:nat) (fuel:nat) (s:bs) (out:bytes) : res (bs * bytes) :=
  match n with
  | O => Bad
  | S n' =>
    do (fin, s1, out1) <- block fuel s out;
    if fin:bool then Ok (s1, out1) else blocks n' fuel s1 out1
  end.

Definition fuel_of (l:bytes) : nat := S (8 * length l).

Inductive inflate_result : Type :=
| Done (out:bytes) (consumed_bits:N)
| NeedMore
| Corrupt.

Definition inflate_ext (l:bytes) : inflate_result :=
  if bytes_okb l then
    let f := fuel_of l in
    match blocks f f (mkbs [] l) [] with
    | Ok (s, out) => Done (rev_append out []) (8 * (blen l - blen (rest s)) - N.of_nat (length (cur s)))
    | More => NeedMore
    | Bad => Corrupt
    end
  else Corrupt.

Definition inflate (l:bytes) : option bytes :=
  match inflate_ext l with Done out _ => Some out | _ => None end.

(* ---------- stored-block "compressor" with sync flush (Go: flate.Writer at level 0, Write + Flush) ---------- *)
Definition stored_block (c:bytes) : bytes :=
  let n := blen c in
  [0; n mod 256; n / 256; (65535 - n) mod 256; (65535 - n) / 256] ++ c.

(* split into chunks of at most m elements *)
Fixpoint chunks (m:nat) (fuel:nat) (d:bytes) : list bytes :=
  match fuel with
  | O => []
  | S f => match d with
           | [] => []
           | _ => firstn m d :: chunks m f (skipn m d)
           end
  end.

Definition chunk_max : nat := N.to_nat 65535.

Definition sync_marker : bytes := [0;0;0;255;255].

Definition deflate0 (d:bytes) : bytes :=
  concat (map stored_block (chunks chunk_max (length d) d)) ++ sync_marker.

(* what the websocket writer sends: the flushed stream without its last four bytes *)
Definition trunc4 (z:bytes) : bytes := firstn (length z - 4) z.
(* what the websocket reader appends: those four bytes and a final empty stored block *)
Definition ws_tail : bytes := [0;0;255;255;1;0;0;255;255].
