(* RFC 6455 section 5 framing, written from the RFC text: frames, the canonical encoder, a
   reference decoder, wire well-formedness and defragmentation into events.  Nothing here looks
   at how the Go code is organised; the extracted decoder judges the real wire bytes. *)
Require Import WS.Base.Bytes.

Record frame := { fin : bool; rsv : N (* RSV1..3 as 0..7, RSV1 = 4 *); opcode : N;
                  mkey : option bytes; payload : bytes (* unmasked *) }.

Definition b2n (b:bool) : N := if b then 1 else 0.
Definition plen (f:frame) : N := blen (payload f).

(* 5.2: 7-bit, 7+16-bit and 7+64-bit payload length; [m] is the MASK bit value (0 or 128) *)
Definition len_enc (m:N) (n:N) : bytes :=
  if n <? 126 then [m + n] else if n <? 65536 then (m+126) :: be_enc 2 n else (m+127) :: be_enc 8 n.

Definition encode_frame (f:frame) : bytes :=
  [128 * b2n (fin f) + 16 * rsv f + opcode f]
  ++ len_enc (match mkey f with Some _ => 128 | None => 0 end) (plen f)
  ++ match mkey f with Some k => k ++ maskl k 0 (payload f) | None => payload f end.

Definition encode_frames (fs:list frame) : bytes := flat_map encode_frame fs.

Inductive pres :=
| Parsed (f:frame) (minimal:bool) (rest:bytes)
| Need            (* the bytes are a strict prefix of a frame *)
| BadLen.         (* 64-bit length with the most significant bit set *)

Definition parse_frame (bs:bytes) : pres :=
  match bs with
  | b0 :: b1 :: r =>
    let fn := 128 <=? b0 in let rs := (b0 mod 128) / 16 in let op := b0 mod 16 in
    let masked := 128 <=? b1 in let l7 := b1 mod 128 in
    let ext := if l7 =? 126 then 2%nat else if l7 =? 127 then 8%nat else 0%nat in
    match take ext r with None => Need | Some (lb, r1) =>
    let len := if l7 <? 126 then l7 else be_dec lb in
    let minimal := if l7 =? 126 then 126 <=? len else if l7 =? 127 then 65536 <=? len else true in
    if 2^63 <=? len then BadLen else
    match (if masked then take 4 r1 else Some ([], r1)) with None => Need | Some (k, r2) =>
    if short_of r2 len then Need else
    match take (N.to_nat len) r2 with None => Need | Some (pl, rest) =>
      Parsed {| fin := fn; rsv := rs; opcode := op; mkey := if masked then Some k else None;
                payload := if masked then maskl k 0 pl else pl |} minimal rest
    end end end
  | _ => Need
  end.

(* whole stream -> frames; [tail] is what is left when no further complete frame can be parsed *)
Inductive ptail := TEnd | TPartial (rest:bytes) | TBadLen (rest:bytes).

Fixpoint parse_frames_fuel (fuel:nat) (bs:bytes) : list (frame * bool) * ptail :=
  match fuel with
  | O => ([], TPartial bs)
  | S fuel' =>
    match bs with
    | [] => ([], TEnd)
    | _ => match parse_frame bs with
           | Parsed f m rest => let '(fs, t) := parse_frames_fuel fuel' rest in ((f, m) :: fs, t)
           | Need => ([], TPartial bs)
           | BadLen => ([], TBadLen bs)
           end
    end
  end.
Definition parse_frames (bs:bytes) := parse_frames_fuel (S (length bs)) bs.

Definition wf_frame (f:frame) : Prop :=
  rsv f < 8 /\ opcode f < 16 /\ plen f < 2^63 /\
  match mkey f with Some k => length k = 4%nat | None => True end.

Definition is_control (op:N) : bool := 8 <=? op.
Definition is_data_op (op:N) : bool := (op =? 1) || (op =? 2).

(* ---- wire well-formedness of a frame sequence written by an endpoint (C02) ----
   [client]: frames must be masked iff written by a client.  [negotiated]: permessage-deflate
   agreed.  State: whether a data message is open. *)
Definition frame_ok (client negotiated:bool) (open:bool) (f:frame) (minimal:bool) : bool :=
  minimal
  && (if client then match mkey f with Some _ => true | None => false end
      else match mkey f with Some _ => false | None => true end)
  && (if is_control (opcode f)
      then (opcode f <=? 10) && fin f && (plen f <=? 125) && (rsv f =? 0)
      else if is_data_op (opcode f)
      then negb open && ((rsv f =? 0) || (negotiated && (rsv f =? 4)))
      else (opcode f =? 0) && open && (rsv f =? 0)).

Definition next_open (open:bool) (f:frame) : bool :=
  if is_control (opcode f) then open else negb (fin f).

Fixpoint wf_wire_from (client negotiated:bool) (open:bool) (fs:list (frame*bool)) : bool :=
  match fs with
  | [] => true
  | (f, m) :: r => frame_ok client negotiated open f m && wf_wire_from client negotiated (next_open open f) r
  end.
Definition wf_wire client negotiated fs := wf_wire_from client negotiated false fs.

Fixpoint open_after (open:bool) (fs:list (frame*bool)) : bool :=
  match fs with [] => open | (f,_) :: r => open_after (next_open open f) r end.

(* ---- 5.4 defragmentation: events carried by a well-sequenced frame list ---- *)
Inductive event :=
| EMsg (ty:N) (compressed:bool) (data:bytes)    (* data = concatenated payloads, still deflated if compressed *)
| ECtl (op:N) (data:bytes).

(* acc = (type, compressed, reversed chunks) of the open message *)
Fixpoint events_from (acc:option (N * bool * bytes)) (fs:list frame) : list event * option (N * bool * bytes) :=
  match fs with
  | [] => ([], acc)
  | f :: r =>
    if is_control (opcode f) then
      let '(ev, a) := events_from acc r in (ECtl (opcode f) (payload f) :: ev, a)
    else
      let acc' := match acc with
                  | None => (opcode f, rsv f =? 4, payload f)
                  | Some (ty, c, d) => (ty, c, d ++ payload f)
                  end in
      if fin f then
        let '(ty, c, d) := acc' in
        let '(ev, a) := events_from None r in (EMsg ty c d :: ev, a)
      else events_from (Some acc') r
  end.
Definition events_of (fs:list frame) : list event := fst (events_from None fs).

Definition data_msgs (evs:list event) : list (N * bool * bytes) :=
  flat_map (fun e => match e with EMsg t c d => [(t, c, d)] | _ => [] end) evs.
Definition ctl_events (evs:list event) : list (N * bytes) :=
  flat_map (fun e => match e with ECtl o d => [(o, d)] | _ => [] end) evs.

(* ---- a frame cut short: header complete, payload a strict prefix ---- *)
Definition parse_partial (bs:bytes) : option (frame * N (* declared length *)) :=
  match bs with
  | b0 :: b1 :: r =>
    let fn := 128 <=? b0 in let rs := (b0 mod 128) / 16 in let op := b0 mod 16 in
    let masked := 128 <=? b1 in let l7 := b1 mod 128 in
    let ext := if l7 =? 126 then 2%nat else if l7 =? 127 then 8%nat else 0%nat in
    match take ext r with None => None | Some (lb, r1) =>
    let len := if l7 <? 126 then l7 else be_dec lb in
    match (if masked then take 4 r1 else Some ([], r1)) with None => None | Some (k, r2) =>
      Some ({| fin := fn; rsv := rs; opcode := op; mkey := if masked then Some k else None;
               payload := if masked then maskl k 0 r2 else r2 |}, len)
    end end
  | _ => None
  end.
