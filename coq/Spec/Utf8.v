(* Well-formed UTF-8 (Unicode 15 table 3-7), the notion Go's utf8.Valid implements and
   RFC 6455 5.5.1 / RFC 3629 require of a close reason. *)
Require Import WS.Base.Bytes.

Definition inr_ (lo hi b:N) : bool := (lo <=? b) && (b <=? hi).

Fixpoint utf8_valid_fuel (fuel:nat) (l:bytes) : bool :=
  match fuel with
  | O => false
  | S f =>
    match l with
    | [] => true
    | b0 :: r =>
      if b0 <? 128 then utf8_valid_fuel f r
      else if inr_ 194 223 b0 then
        match r with b1 :: r' => inr_ 128 191 b1 && utf8_valid_fuel f r' | _ => false end
      else if inr_ 224 239 b0 then
        match r with
        | b1 :: b2 :: r' =>
            (if b0 =? 224 then inr_ 160 191 b1 else if b0 =? 237 then inr_ 128 159 b1 else inr_ 128 191 b1)
            && inr_ 128 191 b2 && utf8_valid_fuel f r'
        | _ => false
        end
      else if inr_ 240 244 b0 then
        match r with
        | b1 :: b2 :: b3 :: r' =>
            (if b0 =? 240 then inr_ 144 191 b1 else if b0 =? 244 then inr_ 128 143 b1 else inr_ 128 191 b1)
            && inr_ 128 191 b2 && inr_ 128 191 b3 && utf8_valid_fuel f r'
        | _ => false
        end
      else false
    end
  end.
Definition utf8_valid (l:bytes) : bool := utf8_valid_fuel (S (length l)) l.
