(* What a write program puts on the wire, stated from the API documentation alone: every write
   operation that reported success contributed exactly its message; a message writer left open
   is completed by the next NextWriter / WriteMessage / WritePreparedMessage (whose own result
   does not tell how that implicit Close went: see [flush] below); a Write that fails abandons
   its message.  The abstract writer below knows nothing about buffers, frames or masking. *)
Require Import WS.Base.Bytes WS.Spec.Frame.

Inductive aop :=
| AMessage (ty:N) (d:bytes)          (* WriteMessage / WriteJSON / WritePreparedMessage *)
| ANext (ty:N)                       (* NextWriter *)
| AWrite (d:bytes)                   (* Write / WriteString / ReadFrom on the current writer *)
| AClose                             (* Close of the current writer *)
| AControl (ty:N) (d:bytes)          (* WriteControl *)
| ASetComp (b:bool)                  (* EnableWriteCompression *)
| AOther.                            (* calls that never write: SetWriteDeadline, SetCompressionLevel *)

(* expected wire event: type, "sent while write compression was on" and payload *)
Record sent := { s_ty : N; s_comp : bool; s_data : bytes; s_complete : bool }.

Definition is_data (t:N) : bool := (t =? 1) || (t =? 2).

Record ast := { a_open : option (N * bool * bytes); a_comp : bool; a_out : list sent;
                a_dead : bool (* a close frame went out or the transport failed: nothing more is written *) }.

(* [res]: the error class the call returned: 0 = nil, 6/7 = the transport's own error *)
Definition astep (negotiated:bool) (s:ast) (o:aop) (res:N) : ast :=
  let ok := res =? 0 in
  let s := if (res =? 6) || (res =? 7) then {| a_open := a_open s; a_comp := a_comp s; a_out := a_out s; a_dead := true |} else s in
  let closes (ty:N) (s:ast) : ast :=
    if ok && (ty =? 8) then {| a_open := a_open s; a_comp := a_comp s; a_out := a_out s; a_dead := true |} else s in
  (* a new NextWriter / WriteMessage implicitly completes the writer left open.  The error of
     that implicit Close is discarded by the call, so its outcome is not read off [res]:
     - a control-type message longer than 125 bytes is refused (errInvalidControlFrame, dropped
       silently): nothing is sent;
     - any other message is sent; if it is a close message the connection is closed for writing
       from then on (the call itself then reports errCloseSent, i.e. [res] <> 0). *)
  let flush (s:ast) : ast :=
    match a_open s with
    | Some (t, c, d) =>
        if a_dead s then {| a_open := None; a_comp := a_comp s; a_out := a_out s; a_dead := true |}
        else if (8 <=? t) && (125 <? blen d) then {| a_open := None; a_comp := a_comp s; a_out := a_out s; a_dead := a_dead s |}
        else {| a_open := None; a_comp := a_comp s;
                a_out := a_out s ++ [{| s_ty := t; s_comp := c; s_data := d; s_complete := true |}];
                a_dead := (t =? 8) |}
    | None => s
    end in
  match o with
  | AMessage ty d =>
      let s := flush s in
      if ok then closes ty {| a_open := None; a_comp := a_comp s;
                    a_out := a_out s ++ [{| s_ty := ty; s_comp := negotiated && a_comp s && is_data ty; s_data := d; s_complete := true |}]; a_dead := a_dead s |}
      else s
  | ANext ty =>
      let s := flush s in
      if ok then {| a_open := Some (ty, negotiated && a_comp s && is_data ty, []); a_comp := a_comp s; a_out := a_out s; a_dead := a_dead s |} else s
  | AWrite d =>
      (* a Write that fails ends the writer (flushFrame calls endMessage on every error): the
         message is abandoned, a later Close or implicit close sends nothing *)
      match a_open s with
      | Some (t, c, acc) =>
          if ok then {| a_open := Some (t, c, acc ++ d); a_comp := a_comp s; a_out := a_out s; a_dead := a_dead s |}
          else {| a_open := None; a_comp := a_comp s; a_out := a_out s; a_dead := a_dead s |}
      | None => s
      end
  | AClose =>
      match a_open s with
      | Some (t, c, acc) =>
          if ok then closes t {| a_open := None; a_comp := a_comp s; a_out := a_out s ++ [{| s_ty := t; s_comp := c; s_data := acc; s_complete := true |}]; a_dead := a_dead s |}
          else {| a_open := None; a_comp := a_comp s; a_out := a_out s; a_dead := a_dead s |}
      | None => s
      end
  | AControl ty d =>
      if ok then closes ty {| a_open := a_open s; a_comp := a_comp s;
                    a_out := a_out s ++ [{| s_ty := ty; s_comp := false; s_data := d; s_complete := true |}]; a_dead := a_dead s |}
      else s
  | ASetComp b => {| a_open := a_open s; a_comp := b; a_out := a_out s; a_dead := a_dead s |}
  | AOther => s
  end.

Fixpoint arun (negotiated:bool) (s:ast) (ops:list (aop * N)) : ast :=
  match ops with [] => s | (o, res) :: r => arun negotiated (astep negotiated s o res) r end.

Definition ast0 : ast := {| a_open := None; a_comp := true; a_out := []; a_dead := false |}.
