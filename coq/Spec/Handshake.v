(* RFC 6455 section 4 / RFC 7230 section 7 as Spec: the 1#token list grammar, the opening
   handshake validity conditions, the accept digest.  Written from the RFC text, not from the
   scanner in util.go. *)
Require Import WS.Base.Bytes WS.Spec.Base64 WS.Spec.Sha1.

(* RFC 7230 tchar *)
Definition tchar (b:N) : bool :=
  ((48 <=? b) && (b <=? 57)) || ((65 <=? b) && (b <=? 90)) || ((97 <=? b) && (b <=? 122))
  || existsb (N.eqb b) [33;35;36;37;38;39;42;43;45;46;94;95;96;124;126].

Definition ows (b:N) : bool := (b =? 32) || (b =? 9).

Fixpoint split_on (c:N) (cur:bytes) (s:bytes) : list bytes :=
  match s with
  | [] => [rev' cur]
  | b :: r => if b =? c then rev' cur :: split_on c [] r else split_on c (b :: cur) r
  end.

Fixpoint drop_ows (s:bytes) : bytes := match s with b :: r => if ows b then drop_ows r else s | [] => [] end.
Definition trim_ows (s:bytes) : bytes := rev' (drop_ows (rev' (drop_ows s))).

Definition elements (line:bytes) : list bytes := map trim_ows (split_on 44 [] line).
Definition is_token (e:bytes) : bool := match e with [] => false | _ => forallb tchar e end.

(* all elements of the line are tokens: the line is inside the 1#token grammar *)
Definition line_wf (line:bytes) : bool := forallb is_token (elements line).

(* some element of some line is the token, ASCII-case-insensitively *)
Definition has_token (lines:list bytes) (value:bytes) : bool :=
  existsb (fun line => existsb (fun e => is_token e && beq (lower e) (lower value)) (elements line)) lines.

Definition guid : bytes :=   (* "258EAFA5-E914-47DA-95CA-C5AB0DC85B11" *)
  [50;53;56;69;65;70;65;53;45;69;57;49;52;45;52;55;68;65;45;57;53;67;65;45;67;53;65;66;48;68;67;56;53;66;49;49].
Definition accept_digest (key:bytes) : bytes := b64_encode (sha1 (key ++ guid)).

Definition valid_key (k:bytes) : bool :=
  match k with [] => false | _ => match b64_decode k with Some d => Nat.eqb (length d) 16 | None => false end end.

(* lines of an HTTP header block: split at CRLF *)
Fixpoint split_crlf (cur:bytes) (s:bytes) : list bytes :=
  match s with
  | [] => [rev' cur]
  | 13 :: 10 :: r => rev' cur :: split_crlf [] r
  | b :: r => split_crlf (b :: cur) r
  end.
Definition has_ctl (l:bytes) : bool := existsb (fun b => (b =? 13) || (b =? 10)) l.

(* ---- Sec-WebSocket-Extensions (RFC 6455 section 9.1, RFC 7230 section 7 lists) ---- *)
(* RFC 7230 list splitting that knows quoted strings: a comma inside "..." (with backslash
   escapes) does not separate elements *)
Fixpoint split_list_q (inq esc:bool) (cur:bytes) (s:bytes) : list bytes :=
  match s with
  | [] => [rev' cur]
  | b :: r =>
      if esc then split_list_q inq false (b :: cur) r
      else if inq then
        if b =? 92 then split_list_q true true (b :: cur) r
        else if b =? 34 then split_list_q false false (b :: cur) r
        else split_list_q true false (b :: cur) r
      else if b =? 34 then split_list_q true false (b :: cur) r
      else if b =? 44 then rev' cur :: split_list_q false false [] r
      else split_list_q false false (b :: cur) r
  end.

Definition first (l:list bytes) : bytes := match l with x :: _ => x | [] => [] end.

Definition pmd_token : bytes :=   (* "permessage-deflate" *)
  [112;101;114;109;101;115;115;97;103;101;45;100;101;102;108;97;116;101].

(* the name of one list element: what precedes the first ';', without surrounding OWS *)
Definition ext_elem_name (e:bytes) : bytes := trim_ows (first (split_on 59 [] e)).

(* "the client offered permessage-deflate": some element of some header line has that name *)
Definition offers_pmd (lines:list bytes) : bool :=
  existsb (fun l => existsb (fun e => beq (trim_ows (first (split_on 59 [] e))) pmd_token)
                            (split_list_q false false [] l)) lines.
