(* FIPS 180-4 SHA-1 on byte lists.  32-bit words are N values < 2^32.
   Standard library only. *)
From Coq Require Import String Ascii.
Require Import WS.Base.Bytes.
Require Import WS.Spec.Base64.

Definition w32 : N := 4294967296.            (* 2^32 *)
Definition mask32 : N := 4294967295.         (* 2^32 - 1 *)

Definition trunc32 (x:N) : N := N.land x mask32.
Definition add32 (x y:N) : N := trunc32 (x + y).

(* rotate left by n (0 < n < 32) of a word < 2^32 *)
Definition rotl (n:N) (x:N) : N :=
  N.lor (trunc32 (N.shiftl x n)) (N.shiftr x (32 - n)).

(* ---------- padding (FIPS 180-4 5.1.1) ---------- *)
Definition sha1_pad (m:bytes) : bytes :=
  let l := blen m in
  m ++ 128 :: repeat 0 (N.to_nat ((119 - l mod 64) mod 64)) ++ be_enc 8 (8 * l).

(* ---------- bytes -> big-endian 32-bit words ---------- *)
Fixpoint words (l:bytes) : list N :=
  match l with
  | a :: b :: c :: d :: r => (((a * 256 + b) * 256 + c) * 256 + d) :: words r
  | _ => []
  end.

(* ---------- message schedule (6.1.2 step 1) ----------
   [rw] is the schedule so far in REVERSE order (head = W(t-1)); each step
   conses W(t) = ROTL1(W(t-3) xor W(t-8) xor W(t-14) xor W(t-16)). *)
Fixpoint sched (n:nat) (rw:list N) : list N :=
  match n with
  | O => rw
  | S n' =>
      match rw with
      | _ :: _ :: a3 :: _ :: _ :: _ :: _ :: a8 :: _ :: _ :: _ :: _ :: _ :: a14 :: _ :: a16 :: _ =>
          sched n' (rotl 1 (N.lxor (N.lxor a3 a8) (N.lxor a14 a16)) :: rw)
      | _ => rw
      end
  end.

Definition schedule (blk:list N) : list N := rev' (sched 64 (rev' blk)).

(* ---------- round functions and constants (4.1.1, 4.2.1) ---------- *)
Definition f_ch (b c d:N) : N := N.lxor d (N.land b (N.lxor c d)).
Definition f_parity (b c d:N) : N := N.lxor b (N.lxor c d).
Definition f_maj (b c d:N) : N := N.lor (N.land b c) (N.land d (N.lor b c)).

Definition sha1_f (t:N) (b c d:N) : N :=
  if t <? 20 then f_ch b c d
  else if t <? 40 then f_parity b c d
  else if t <? 60 then f_maj b c d
  else f_parity b c d.

Definition sha1_k (t:N) : N :=
  if t <? 20 then 1518500249        (* 5a827999 *)
  else if t <? 40 then 1859775393   (* 6ed9eba1 *)
  else if t <? 60 then 2400959708   (* 8f1bbcdc *)
  else 3395469782.                  (* ca62c1d6 *)

Record st := mkst { sa : N; sb : N; sc : N; sd : N; se : N }.

Fixpoint rounds (t:N) (ws:list N) (s:st) : st :=
  match ws with
  | [] => s
  | w :: r =>
      let '(mkst a b c d e) := s in
      let tmp := trunc32 (rotl 5 a + sha1_f t b c d + e + sha1_k t + w) in
      rounds (t + 1) r (mkst tmp a (rotl 30 b) c d)
  end.

Definition compress (h:st) (blk:bytes) : st :=
  let r := rounds 0 (schedule (words blk)) h in
  mkst (add32 (sa h) (sa r)) (add32 (sb h) (sb r)) (add32 (sc h) (sc r))
       (add32 (sd h) (sd r)) (add32 (se h) (se r)).

(* process 64-byte blocks; fuel >= number of blocks *)
Fixpoint blocks (fuel:nat) (h:st) (l:bytes) : st :=
  match fuel with
  | O => h
  | S f =>
      match l with
      | [] => h
      | _ :: _ => blocks f (compress h (firstn 64 l)) (skipn 64 l)
      end
  end.

Definition sha1_init : st :=
  mkst 1732584193 4023233417 2562383102 271733878 3285377520.
  (*   67452301   efcdab89   98badcfe   10325476  c3d2e1f0 *)

Definition st_bytes (h:st) : bytes :=
  be_enc 4 (sa h) ++ be_enc 4 (sb h) ++ be_enc 4 (sc h) ++ be_enc 4 (sd h) ++ be_enc 4 (se h).

Definition sha1 (m:bytes) : bytes :=
  let p := sha1_pad m in
  st_bytes (blocks (length p) sha1_init p).

(* ---------- basic facts ---------- *)
Lemma st_bytes_length h : length (st_bytes h) = 20%nat.
Proof. unfold st_bytes. rewrite !app_length, !be_enc_length. reflexivity. Qed.

Lemma st_bytes_ok h : bytes_ok (st_bytes h).
Proof.
  unfold st_bytes, bytes_ok.
  pose proof be_enc_bytes_ok as Hbe. unfold bytes_ok in Hbe.
  apply Forall_app; split; [apply Hbe|].
  apply Forall_app; split; [apply Hbe|].
  apply Forall_app; split; [apply Hbe|].
  apply Forall_app; split; apply Hbe.
Qed.

Lemma sha1_length m : length (sha1 m) = 20%nat.
Proof. unfold sha1. apply st_bytes_length. Qed.

Lemma sha1_bytes_ok m : bytes_ok (sha1 m).
Proof. unfold sha1. apply st_bytes_ok. Qed.

(* the padded message is a whole number of 64-byte blocks *)
Lemma sha1_pad_length m : blen (sha1_pad m) mod 64 = 0.
Proof.
  unfold sha1_pad, blen.
  rewrite app_length. cbn [length]. rewrite app_length, repeat_length, be_enc_length.
  set (l := N.of_nat (length m)).
  rewrite !Nat2N.inj_add, Nat2N.inj_succ, Nat2N.inj_add, N2Nat.id.
  fold l. change (N.of_nat 8) with 8. lia.
Qed.

(* ---------- hex helper for examples ---------- *)
Definition hexval (c:N) : N :=
  if (48 <=? c) && (c <=? 57) then c - 48
  else if (97 <=? c) && (c <=? 102) then c - 87
  else if (65 <=? c) && (c <=? 70) then c - 55
  else 0.
Fixpoint unhex (l:bytes) : bytes :=
  match l with
  | a :: b :: r => (hexval a * 16 + hexval b) :: unhex r
  | _ => []
  end.
Definition hex (x:string) : bytes := unhex (str x).

(* ---------- examples: FIPS 180 test vectors ---------- *)
Example sha1_ex_empty :
  sha1 (str "") = hex "da39a3ee5e6b4b0d3255bfef95601890afd80709".
Proof. vm_compute. reflexivity. Qed.

Example sha1_ex_abc :
  sha1 (str "abc") = hex "a9993e364706816aba3e25717850c26c9cd0d89d".
Proof. vm_compute. reflexivity. Qed.

Example sha1_ex_two_blocks :
  sha1 (str "abcdbcdecdefdefgefghfghighijhijkijkljklmklmnlmnomnopnopq")
  = hex "84983e441c3bd26ebaae4aa1f95129e5e54670f1".
Proof. vm_compute. reflexivity. Qed.

(* explicit byte form of one vector, so the [hex] helper is itself checked *)
Example sha1_ex_abc_bytes :
  sha1 [97; 98; 99] =
  [169; 153; 62; 54; 71; 6; 129; 106; 186; 62; 37; 113; 120; 80; 194; 108; 156; 208; 216; 157].
Proof. vm_compute. reflexivity. Qed.

(* ---------- RFC 6455 section 1.3: Sec-WebSocket-Accept ---------- *)
Definition ws_guid : bytes := str "258EAFA5-E914-47DA-95CA-C5AB0DC85B11".
Definition ws_accept (key:bytes) : bytes := b64_encode (sha1 (key ++ ws_guid)).

Example ws_accept_rfc6455 :
  ws_accept (str "dGhlIHNhbXBsZSBub25jZQ==") = str "s3pPLMBiTxaQ9kYGzzhZRbK+xOo=".
Proof. vm_compute. reflexivity. Qed.

Lemma ws_accept_length key : blen (ws_accept key) = 28.
Proof.
  unfold ws_accept. rewrite b64_encode_length. unfold blen. rewrite sha1_length. reflexivity.
Qed.

Lemma ws_accept_decodes key : b64_decode (ws_accept key) = Some (sha1 (key ++ ws_guid)).
Proof. unfold ws_accept. apply b64_decode_encode. apply sha1_bytes_ok. Qed.

Print Assumptions sha1_length.
Print Assumptions sha1_bytes_ok.
Print Assumptions sha1_pad_length.
Print Assumptions ws_accept_rfc6455.
Print Assumptions ws_accept_decodes.
