(* Which frames a reader of a given role must refuse (RFC 6455 5.2-5.5, 7.4; the list in
   property C04), the longest acceptable prefix of a stream, and the messages it carries. *)
Require Import WS.Base.Bytes WS.Spec.Frame WS.Spec.Utf8.

(* close codes a peer may send: RFC 6455 7.4.1 + IANA registry (1012, 1013), 3000-4999 *)
Definition close_code_ok (c:N) : bool :=
  ((1000 <=? c) && (c <=? 1003)) || ((1007 <=? c) && (c <=? 1013)) || ((3000 <=? c) && (c <=? 4999)).

Definition close_body_bad (p:bytes) : bool :=
  (2 <=? blen p) && (negb (close_code_ok (be_dec (firstn 2 p))) || negb (utf8_valid (skipn 2 p))).

(* header-level violations; [server] = the reader is a server (peer frames must be masked);
   [open] = a fragmented message is in progress; [len] = declared payload length *)
Definition violates_hdr (server negotiated open:bool) (f:frame) (len:N) : bool :=
  let r := rsv f in let op := opcode f in
  negb ((r =? 0) || (negotiated && (r =? 4)))
  || ((3 <=? op) && (op <=? 7)) || (11 <=? op)
  || (is_control op && (negb (fin f) || (125 <? len)))
  || ((op =? 0) && negb open)
  || (is_data_op op && open)
  || xorb (match mkey f with Some _ => true | None => false end) server.

Definition violates (server negotiated open:bool) (f:frame) : bool :=
  violates_hdr server negotiated open f (plen f)
  || ((opcode f =? 8) && close_body_bad (payload f)).

Inductive stop :=
| SEnd                               (* the stream ends at a frame boundary *)
| SViolation (f:frame)               (* next frame violates framing (complete or header only) *)
| SClosed (f:frame)                  (* a valid close frame: nothing after it is ever read *)
| SBadLen                            (* 64-bit length with the top bit set *)
| SCut (hdr:option (frame * N)).     (* stream ends inside a frame; Some = header was complete *)

(* frames a conformant reader accepts, in order, and why it stops *)
Fixpoint scan (server negotiated open:bool) (fs:list (frame*bool)) (t:ptail) : list frame * stop :=
  match fs with
  | (f, minimal) :: r =>
      (* a control frame whose 7-bit length field is 126 or 127 is refused on that field alone
         (RFC 6455 5.5: control frames carry at most 125 bytes; 5.2: minimal length encoding) *)
      if violates server negotiated open f || (is_control (opcode f) && negb minimal) then ([], SViolation f)
      else if opcode f =? 8 then ([f], SClosed f)
      else let '(g, s) := scan server negotiated (next_open open f) r t in (f :: g, s)
  | [] =>
      match t with
      | TEnd => ([], SEnd)
      | TBadLen rest =>
          (* the two fixed header bytes are checked before the length is read *)
          match rest with
          | b0 :: b1 :: _ =>
              let f := {| fin := 128 <=? b0; rsv := (b0 mod 128) / 16; opcode := b0 mod 16;
                          mkey := if 128 <=? b1 then Some [] else None; payload := [] |} in
              if violates_hdr server negotiated open f 126 then ([], SViolation f) else ([], SBadLen)
          | _ => ([], SBadLen)
          end
      | TPartial rest =>
          match parse_partial rest with
          | Some (f, len) =>
              if violates_hdr server negotiated open f len then ([], SViolation f) else ([], SCut (Some (f, len)))
          | None =>
              match rest with
              | b0 :: b1 :: _ =>
                  let f := {| fin := 128 <=? b0; rsv := (b0 mod 128) / 16; opcode := b0 mod 16;
                              mkey := if 128 <=? b1 then Some [] else None; payload := [] |} in
                  if violates_hdr server negotiated open f (b1 mod 128) then ([], SViolation f) else ([], SCut None)
              | _ => ([], SCut None)
              end
          end
      end
  end.

Definition scan_stream (server negotiated:bool) (stream:bytes) : list frame * stop :=
  let '(fs, t) := parse_frames stream in scan server negotiated false fs t.

Definition conformant (server negotiated:bool) (stream:bytes) : bool :=
  match scan_stream server negotiated stream with
  | (fs, SEnd) => negb (open_after false (map (fun f => (f, true)) fs))
  | (fs, SClosed _) => true
  | _ => false
  end.

(* expected messages: complete ones, then possibly one that is only partly available *)
Record emsg := { e_ty : N; e_comp : bool; e_data : bytes; e_complete : bool;
                 e_corrupt : bool (* compressed payload that does not inflate *);
                 e_end : N (* stream offset just after the message's last frame; 0 if partial *) }.

(* size on the wire of a minimally encoded frame *)
Definition frame_size (f:frame) : N :=
  2 + (if plen f <? 126 then 0 else if plen f <? 65536 then 2 else 8)
    + (match mkey f with Some _ => 4 | None => 0 end) + plen f.

(* end offsets of the complete data messages of a frame list *)
Fixpoint msg_ends (off:N) (fs:list frame) : list N :=
  match fs with
  | [] => []
  | f :: r => let off' := off + frame_size f in
              if negb (is_control (opcode f)) && fin f then off' :: msg_ends off' r else msg_ends off' r
  end.

Definition expected_msgs (good:list frame) (s:stop) : list emsg :=
  let '(evs, acc) := events_from None good in
  let complete := map (fun me => match me with ((t, c, d), e) => {| e_ty := t; e_comp := c; e_data := d; e_complete := true; e_corrupt := false; e_end := e |} end)
                      (combine (data_msgs evs) (msg_ends 0 good)) in
  let partial :=
    match acc, s with
    | Some (t, c, d), SCut (Some (f, _)) =>
        if opcode f =? 0 then [{| e_ty := t; e_comp := c; e_data := d ++ payload f; e_complete := false; e_corrupt := false; e_end := 0 |}]
        else [{| e_ty := t; e_comp := c; e_data := d; e_complete := false; e_corrupt := false; e_end := 0 |}]
    | Some (t, c, d), _ => [{| e_ty := t; e_comp := c; e_data := d; e_complete := false; e_corrupt := false; e_end := 0 |}]
    | None, SCut (Some (f, _)) =>
        if is_data_op (opcode f) then [{| e_ty := opcode f; e_comp := rsv f =? 4; e_data := payload f; e_complete := false; e_corrupt := false; e_end := 0 |}]
        else []
    | None, _ => []
    end in
  complete ++ partial.
