(* Model of Go's encoding/base64 StdEncoding (standard alphabet, '=' padding,
   non-strict), on byte lists.  Standard library only. *)
From Coq Require Import String Ascii.
Require Import WS.Base.Bytes.
(* Bytes is imported last so that [length], [++] ... are the List ones. *)

(* ---------- readable examples: ASCII string -> bytes ---------- *)
Fixpoint str (x:string) : bytes :=
  match x with
  | EmptyString => []
  | String c r => N_of_ascii c :: str r
  end.

(* ---------- alphabet ---------- *)
Definition b64_pad : N := 61.   (* '=' *)

Definition b64_chr (i:N) : N :=
  if i <? 26 then i + 65            (* A-Z *)
  else if i <? 52 then i + 71       (* a-z *)
  else if i <? 62 then i - 4        (* 0-9 *)
  else if i =? 62 then 43           (* + *)
  else 47.                          (* / *)

Definition b64_idx (c:N) : option N :=
  if (65 <=? c) && (c <=? 90) then Some (c - 65)
  else if (97 <=? c) && (c <=? 122) then Some (c - 71)
  else if (48 <=? c) && (c <=? 57) then Some (c + 4)
  else if c =? 43 then Some 62
  else if c =? 47 then Some 63
  else None.

Lemma b64_idx_chr i : i < 64 -> b64_idx (b64_chr i) = Some i.
Proof.
  intros Hi. unfold b64_chr.
  destruct (i <? 26) eqn:E1;
    [|destruct (i <? 52) eqn:E2;
      [|destruct (i <? 62) eqn:E3;
        [|destruct (i =? 62) eqn:E4]]];
  unfold b64_idx;
  repeat match goal with
         | |- context[if ?b then _ else _] => destruct b eqn:?
         end; try (exfalso; lia); try (f_equal; lia).
Qed.

Lemma b64_idx_lt c i : b64_idx c = Some i -> i < 64.
Proof.
  unfold b64_idx.
  repeat match goal with
         | |- context[if ?b then _ else _] => destruct b eqn:?
         end; intros H; inversion H; subst; lia.
Qed.

Lemma b64_idx_pad : b64_idx 61 = None.
Proof. reflexivity. Qed.

Lemma b64_chr_not_crlf i : b64_chr i <> 10 /\ b64_chr i <> 13.
Proof.
  unfold b64_chr.
  repeat match goal with
         | |- context[if ?b then _ else _] => destruct b eqn:?
         end; lia.
Qed.

(* ---------- encoder ---------- *)
Fixpoint b64_encode (d:bytes) : bytes :=
  match d with
  | [] => []
  | [a] => [b64_chr (a / 4); b64_chr ((a mod 4) * 16); b64_pad; b64_pad]
  | [a; b] => [b64_chr (a / 4); b64_chr ((a mod 4) * 16 + b / 16);
               b64_chr ((b mod 16) * 4); b64_pad]
  | a :: b :: c :: rest =>
      b64_chr (a / 4) :: b64_chr ((a mod 4) * 16 + b / 16)
      :: b64_chr ((b mod 16) * 4 + c / 64) :: b64_chr (c mod 64)
      :: b64_encode rest
  end.

(* ---------- decoder ---------- *)
Definition is_crlf (c:N) : bool := (c =? 10) || (c =? 13).
Definition not_crlf (c:N) : bool := negb (is_crlf c).

(* four alphabet characters -> three bytes *)
Definition dfull (a b c d:N) : option (N * N * N) :=
  match b64_idx a, b64_idx b, b64_idx c, b64_idx d with
  | Some p, Some q, Some r, Some s =>
      Some (p * 4 + q / 16, (q mod 16) * 16 + r / 4, (r mod 4) * 64 + s)
  | _, _, _, _ => None
  end.

(* last quantum with padding: "xx==" or "xxx=" (trailing bits ignored: non-strict) *)
Definition dpad (a b c d:N) : option bytes :=
  if d =? 61 then
    if c =? 61 then
      match b64_idx a, b64_idx b with
      | Some p, Some q => Some [p * 4 + q / 16]
      | _, _ => None
      end
    else
      match b64_idx a, b64_idx b, b64_idx c with
      | Some p, Some q, Some r => Some [p * 4 + q / 16; (q mod 16) * 16 + r / 4]
      | _, _, _ => None
      end
  else None.

(* quanta of 4 significant characters; CR/LF already removed *)
Fixpoint dq (s:bytes) : option bytes :=
  match s with
  | [] => Some []
  | a :: b :: c :: d :: rest =>
      match dfull a b c d with
      | Some (x, y, z) =>
          match dq rest with
          | Some t => Some (x :: y :: z :: t)
          | None => None
          end
      | None =>
          match rest with
          | [] => dpad a b c d
          | _ :: _ => None
          end
      end
  | _ => None
  end.

Definition b64_decode (s:bytes) : option bytes := dq (filter not_crlf s).

(* ---------- induction principles by groups ---------- *)
Lemma list_ind3 (A:Type) (P:list A -> Prop) :
  P [] -> (forall a, P [a]) -> (forall a b, P [a; b]) ->
  (forall a b c l, P l -> P (a :: b :: c :: l)) ->
  forall l, P l.
Proof.
  intros H0 H1 H2 H3.
  fix IH 1. intros l.
  destruct l as [|a [|b [|c l']]].
  - exact H0.
  - apply H1.
  - apply H2.
  - apply H3. apply IH.
Qed.

Lemma list_ind4 (A:Type) (P:list A -> Prop) :
  P [] -> (forall a, P [a]) -> (forall a b, P [a; b]) -> (forall a b c, P [a; b; c]) ->
  (forall a b c d l, P l -> P (a :: b :: c :: d :: l)) ->
  forall l, P l.
Proof.
  intros H0 H1 H2 H3 H4.
  fix IH 1. intros l.
  destruct l as [|a [|b [|c [|d l']]]].
  - exact H0.
  - apply H1.
  - apply H2.
  - apply H3.
  - apply H4. apply IH.
Qed.

(* ---------- unfolding lemmas ---------- *)
Lemma b64_encode_cons3 a b c rest :
  b64_encode (a :: b :: c :: rest) =
  b64_chr (a / 4) :: b64_chr ((a mod 4) * 16 + b / 16)
  :: b64_chr ((b mod 16) * 4 + c / 64) :: b64_chr (c mod 64)
  :: b64_encode rest.
Proof. reflexivity. Qed.

Lemma dq_cons4 a b c d rest :
  dq (a :: b :: c :: d :: rest) =
  match dfull a b c d with
  | Some (x, y, z) =>
      match dq rest with
      | Some t => Some (x :: y :: z :: t)
      | None => None
      end
  | None =>
      match rest with
      | [] => dpad a b c d
      | _ :: _ => None
      end
  end.
Proof. reflexivity. Qed.

(* ---------- length ---------- *)
Theorem b64_encode_length d : blen (b64_encode d) = 4 * ((blen d + 2) / 3).
Proof.
  unfold blen.
  induction d as [|a|a b|a b c l IH] using list_ind3.
  - reflexivity.
  - reflexivity.
  - reflexivity.
  - rewrite b64_encode_cons3. cbn [length].
    rewrite !Nat2N.inj_succ.
    set (n := N.of_nat (length l)) in *.
    set (m := N.of_nat (length (b64_encode l))) in *.
    lia.
Qed.

(* ---------- round trip ---------- *)
Lemma filter_id (A:Type) (f:A -> bool) l :
  Forall (fun x => f x = true) l -> filter f l = l.
Proof.
  induction 1 as [|x l Hx Hl IH]; cbn [filter]; [reflexivity|].
  rewrite Hx, IH. reflexivity.
Qed.

Lemma not_crlf_chr i : not_crlf (b64_chr i) = true.
Proof.
  destruct (b64_chr_not_crlf i) as [H1 H2].
  unfold not_crlf, is_crlf.
  apply N.eqb_neq in H1. apply N.eqb_neq in H2. rewrite H1, H2. reflexivity.
Qed.

Lemma b64_encode_no_crlf d : Forall (fun x => not_crlf x = true) (b64_encode d).
Proof.
  induction d as [|a|a b|a b c l IH] using list_ind3.
  - constructor.
  - cbn [b64_encode]. repeat constructor; apply not_crlf_chr.
  - cbn [b64_encode]. repeat constructor; apply not_crlf_chr.
  - rewrite b64_encode_cons3. repeat (constructor; [apply not_crlf_chr|]). exact IH.
Qed.

(* one full group: three bytes -> four sextets -> three bytes *)
Lemma dfull_group a b c :
  a < 256 -> b < 256 -> c < 256 ->
  dfull (b64_chr (a / 4)) (b64_chr ((a mod 4) * 16 + b / 16))
        (b64_chr ((b mod 16) * 4 + c / 64)) (b64_chr (c mod 64)) = Some (a, b, c).
Proof.
  intros Ha Hb Hc. unfold dfull.
  rewrite !b64_idx_chr by lia.
  f_equal. f_equal; [f_equal|]; lia.
Qed.

Lemma dq_tail1 a : a < 256 -> dq (b64_encode [a]) = Some [a].
Proof.
  intros Ha. cbn [b64_encode]. rewrite dq_cons4.
  unfold dfull, b64_pad. rewrite b64_idx_pad.
  rewrite !b64_idx_chr by lia.
  unfold dpad. rewrite N.eqb_refl.
  rewrite !b64_idx_chr by lia.
  f_equal. f_equal. lia.
Qed.

Lemma dq_tail2 a b : a < 256 -> b < 256 -> dq (b64_encode [a; b]) = Some [a; b].
Proof.
  intros Ha Hb. cbn [b64_encode]. rewrite dq_cons4.
  unfold dfull, b64_pad. rewrite b64_idx_pad.
  rewrite !b64_idx_chr by lia.
  unfold dpad. rewrite N.eqb_refl.
  assert (Hne : (b64_chr ((b mod 16) * 4) =? 61) = false).
  { apply N.eqb_neq. intros Heq.
    assert (Hi : b64_idx (b64_chr ((b mod 16) * 4)) = Some ((b mod 16) * 4))
      by (apply b64_idx_chr; lia).
    rewrite Heq, b64_idx_pad in Hi. discriminate Hi. }
  rewrite Hne.
  rewrite !b64_idx_chr by lia.
  f_equal. f_equal; [|f_equal]; lia.
Qed.

Lemma dq_encode d : bytes_ok d -> dq (b64_encode d) = Some d.
Proof.
  induction d as [|a|a b|a b c l IH] using list_ind3; intros Hok.
  - reflexivity.
  - inversion Hok as [|? ? Ha _]; subst. apply dq_tail1. exact Ha.
  - inversion Hok as [|? ? Ha Hok1]; subst.
    inversion Hok1 as [|? ? Hb _]; subst.
    apply dq_tail2; assumption.
  - inversion Hok as [|? ? Ha Hok1]; subst.
    inversion Hok1 as [|? ? Hb Hok2]; subst.
    inversion Hok2 as [|? ? Hc Hok3]; subst.
    rewrite b64_encode_cons3, dq_cons4.
    rewrite dfull_group by assumption.
    rewrite (IH Hok3). reflexivity.
Qed.

Theorem b64_decode_encode d : bytes_ok d -> b64_decode (b64_encode d) = Some d.
Proof.
  intros Hok. unfold b64_decode.
  rewrite filter_id by apply b64_encode_no_crlf.
  apply dq_encode. exact Hok.
Qed.

(* ---------- decoded output consists of bytes ---------- *)
Lemma dfull_ok a b c d x y z :
  dfull a b c d = Some (x, y, z) -> x < 256 /\ y < 256 /\ z < 256.
Proof.
  unfold dfull.
  destruct (b64_idx a) as [p|] eqn:Ea; [|discriminate].
  destruct (b64_idx b) as [q|] eqn:Eb; [|discriminate].
  destruct (b64_idx c) as [r|] eqn:Ec; [|discriminate].
  destruct (b64_idx d) as [s|] eqn:Ed; [|discriminate].
  apply b64_idx_lt in Ea, Eb, Ec, Ed.
  intros H; inversion H; subst. lia.
Qed.

Lemma dpad_ok a b c d t : dpad a b c d = Some t -> bytes_ok t.
Proof.
  unfold dpad.
  destruct (d =? 61); [|discriminate].
  destruct (c =? 61).
  - destruct (b64_idx a) as [p|] eqn:Ea; [|discriminate].
    destruct (b64_idx b) as [q|] eqn:Eb; [|discriminate].
    apply b64_idx_lt in Ea, Eb.
    intros H; inversion H; subst.
    constructor; [unfold is_byte; lia|constructor].
  - destruct (b64_idx a) as [p|] eqn:Ea; [|discriminate].
    destruct (b64_idx b) as [q|] eqn:Eb; [|discriminate].
    destruct (b64_idx c) as [r|] eqn:Ec; [|discriminate].
    apply b64_idx_lt in Ea, Eb, Ec.
    intros H; inversion H; subst.
    constructor; [unfold is_byte; lia|].
    constructor; [unfold is_byte; lia|constructor].
Qed.

Lemma dq_ok_bytes s : forall d, dq s = Some d -> bytes_ok d.
Proof.
  induction s as [|a|a b|a b c|a b c e l IH] using list_ind4; intros d H.
  - cbn [dq] in H. inversion H; subst. constructor.
  - cbn [dq] in H. discriminate H.
  - cbn [dq] in H. discriminate H.
  - cbn [dq] in H. discriminate H.
  - rewrite dq_cons4 in H.
    destruct (dfull a b c e) as [[[x y] z]|] eqn:Ef.
    + destruct (dq l) as [t|] eqn:Et; [|discriminate H].
      inversion H; subst.
      apply dfull_ok in Ef. destruct Ef as (Hx & Hy & Hz).
      constructor; [exact Hx|]. constructor; [exact Hy|]. constructor; [exact Hz|].
      apply IH. reflexivity.
    + destruct l as [|u l']; [|discriminate H].
      eapply dpad_ok. exact H.
Qed.

Theorem b64_decode_ok_bytes s d : b64_decode s = Some d -> bytes_ok d.
Proof. unfold b64_decode. apply dq_ok_bytes. Qed.

(* decoding is insensitive to CR/LF anywhere *)
Lemma b64_decode_filter s : b64_decode (filter not_crlf s) = b64_decode s.
Proof.
  unfold b64_decode. f_equal.
  induction s as [|x s IH]; [reflexivity|].
  cbn [filter]. destruct (not_crlf x) eqn:E; cbn [filter]; rewrite ?E, IH; reflexivity.
Qed.

(* ---------- examples (RFC 4648 section 10, RFC 6455 sample nonce) ---------- *)
Example b64_ex0 : b64_encode (str "") = str "".
Proof. vm_compute. reflexivity. Qed.
Example b64_ex1 : b64_encode (str "f") = str "Zg==".
Proof. vm_compute. reflexivity. Qed.
Example b64_ex2 : b64_encode (str "fo") = str "Zm8=".
Proof. vm_compute. reflexivity. Qed.
Example b64_ex3 : b64_encode (str "foo") = str "Zm9v".
Proof. vm_compute. reflexivity. Qed.
Example b64_ex4 : b64_encode (str "foob") = str "Zm9vYg==".
Proof. vm_compute. reflexivity. Qed.
Example b64_ex5 : b64_encode (str "fooba") = str "Zm9vYmE=".
Proof. vm_compute. reflexivity. Qed.
Example b64_ex6 : b64_encode (str "foobar") = str "Zm9vYmFy".
Proof. vm_compute. reflexivity. Qed.
Example b64_ex_dec6 : b64_decode (str "Zm9vYmFy") = Some (str "foobar").
Proof. vm_compute. reflexivity. Qed.
Example b64_ex_nonce :
  option_map (@length N) (b64_decode (str "dGhlIHNhbXBsZSBub25jZQ==")) = Some 16%nat.
Proof. vm_compute. reflexivity. Qed.
Example b64_ex_nonce_val :
  b64_decode (str "dGhlIHNhbXBsZSBub25jZQ==") = Some (str "the sample nonce").
Proof. vm_compute. reflexivity. Qed.
(* non-strict: non-zero trailing bits accepted, like Go's StdEncoding *)
Example b64_ex_nonstrict : b64_decode (str "Zh==") = Some (str "f").
Proof. vm_compute. reflexivity. Qed.
Example b64_ex_bad1 : b64_decode (str "Zg=") = None.
Proof. vm_compute. reflexivity. Qed.
Example b64_ex_bad2 : b64_decode (str "Zg==Zg==") = None.
Proof. vm_compute. reflexivity. Qed.
Example b64_ex_bad3 : b64_decode (str "Zm9") = None.
Proof. vm_compute. reflexivity. Qed.

Print Assumptions b64_encode_length.
Print Assumptions b64_decode_encode.
Print Assumptions b64_decode_ok_bytes.
